//! C18 — specification tables are exact: names round-trip, lookups match the listings.
use crate::engine::*;
use crate::spec::*;
use autosar_data_specification::*;
use proptest::prelude::*;
use serde_json::{json, Value};
use std::collections::{BTreeMap, HashMap, HashSet};
use std::str::FromStr;

#[derive(Clone, Copy, PartialEq, Eq, Debug)]
enum Table {
    Element,
    Attribute,
    Enum,
    Version,
}

impl Table {
    fn name(self) -> &'static str {
        match self {
            Table::Element => "element",
            Table::Attribute => "attribute",
            Table::Enum => "enum",
            Table::Version => "version",
        }
    }
    fn from_name(s: &str) -> Option<Table> {
        Some(match s {
            "element" => Table::Element,
            "attribute" => Table::Attribute,
            "enum" => Table::Enum,
            "version" => Table::Version,
            _ => return None,
        })
    }
    /// lookup: Some(text of the item found) or None
    /// the second public conversion path: FromStr (for valid UTF-8 input); None if the input is not UTF-8
    fn lookup_str(self, b: &[u8]) -> Option<Option<&'static str>> {
        let s = std::str::from_utf8(b).ok()?;
        Some(match self {
            Table::Element => ElementName::from_str(s).ok().map(|x| x.to_str()),
            Table::Attribute => AttributeName::from_str(s).ok().map(|x| x.to_str()),
            Table::Enum => EnumItem::from_str(s).ok().map(|x| x.to_str()),
            Table::Version => AutosarVersion::from_str(s).ok().map(|v| v.filename()),
        })
    }
    fn lookup(self, b: &[u8]) -> Option<&'static str> {
        match self {
            Table::Element => ElementName::from_bytes(b).ok().map(|x| x.to_str()),
            Table::Attribute => AttributeName::from_bytes(b).ok().map(|x| x.to_str()),
            Table::Enum => EnumItem::from_bytes(b).ok().map(|x| x.to_str()),
            Table::Version => std::str::from_utf8(b).ok().and_then(|s| AutosarVersion::from_str(s).ok()).map(|v| v.filename()),
        }
    }
}

struct Members {
    table: Table,
    texts: Vec<&'static str>,
    set: HashSet<&'static [u8]>,
}

fn members(table: Table) -> Members {
    let si = SpecIndex::get();
    let texts: Vec<&'static str> = match table {
        Table::Element => si.element_names.iter().map(|n| n.to_str()).collect(),
        Table::Attribute => si.attribute_names.iter().map(|n| n.to_str()).collect(),
        Table::Enum => si.enum_items.iter().map(|n| n.to_str()).collect(),
        Table::Version => versions().iter().map(|v| v.filename()).collect(),
    };
    let set = texts.iter().map(|t| t.as_bytes()).collect();
    Members { table, texts, set }
}

/// The oracle for one lookup: Ok exactly for members, and the item found has exactly this text.
fn check_lookup(m: &Members, extra_members: &HashSet<Vec<u8>>, s: &[u8]) -> Result<bool, Failure> {
    let got = m.table.lookup(s);
    let is_member = m.set.contains(s) || extra_members.contains(s);
    // both conversion paths must agree (from_bytes and FromStr)
    if let Some(got_str) = m.table.lookup_str(s) {
        if got_str != got {
            return Err(Failure::new(
                format!("lookup-from_str-differs-from-from_bytes:{}", m.table.name()),
                format!("{}: from_bytes({:?}) gives {:?} but from_str gives {:?}", m.table.name(), String::from_utf8_lossy(s), got, got_str),
                json!({"kind": "lookup", "table": m.table.name(), "input": bytes_json(s)}),
            ));
        }
    }
    match got {
        Some(text) => {
            if text.as_bytes() != s {
                return Err(Failure::new(
                    format!("lookup-wrong-item:{}", m.table.name()),
                    format!("{} lookup of {:?} returned the item whose text is {:?}", m.table.name(), String::from_utf8_lossy(s), text),
                    json!({"kind": "lookup", "table": m.table.name(), "input": bytes_json(s)}),
                ));
            }
            if !is_member {
                // an item that neither the graph walk nor the source listing knows: its text
                // equals the input, so it is a genuine item (not a violation)
                return Ok(true);
            }
            Ok(true)
        }
        None => {
            if is_member {
                return Err(Failure::new(
                    format!("lookup-member-rejected:{}", m.table.name()),
                    format!("{} lookup rejects its own member {:?}", m.table.name(), String::from_utf8_lossy(s)),
                    json!({"kind": "lookup", "table": m.table.name(), "input": bytes_json(s)}),
                ));
            }
            Ok(false)
        }
    }
}

fn neighbours(t: &[u8], out: &mut Vec<Vec<u8>>) {
    let n = t.len();
    for i in 0..n {
        // case flip
        let c = t[i];
        if c.is_ascii_alphabetic() {
            let mut v = t.to_vec();
            v[i] = c ^ 0x20;
            out.push(v);
        }
        // separator swap
        if c == b'-' || c == b'_' {
            let mut v = t.to_vec();
            v[i] = if c == b'-' { b'_' } else { b'-' };
            out.push(v);
        }
        // deletion
        let mut v = t.to_vec();
        v.remove(i);
        out.push(v);
        // duplication
        let mut v = t.to_vec();
        v.insert(i, c);
        out.push(v);
        // replacement by neighbour code points
        for d in [1u8, 255u8] {
            let mut v = t.to_vec();
            v[i] = c.wrapping_add(d);
            out.push(v);
        }
        // truncation
        out.push(t[..i].to_vec());
    }
    // extension
    for e in [b'-', b'A', b'S', b'0', b' ', 0u8, 0xFF, b'\n'] {
        let mut v = t.to_vec();
        v.push(e);
        out.push(v);
        let mut v = vec![e];
        v.extend_from_slice(t);
        out.push(v);
    }
    // swaps of adjacent characters
    for i in 0..n.saturating_sub(1) {
        if t[i] != t[i + 1] {
            let mut v = t.to_vec();
            v.swap(i, i + 1);
            out.push(v);
        }
    }
}

/// second listing: (text, value) pairs from the generated sources ("/// TEXT" + "Variant = N,")
fn source_listing(file: &str) -> Option<Vec<(String, u32)>> {
    let text = std::fs::read_to_string(format!("/repo/autosar-data-specification/src/{file}")).ok()?;
    let mut out = vec![];
    let mut last_doc: Option<String> = None;
    let mut in_enum = false;
    for line in text.lines() {
        let l = line.trim();
        if l.starts_with("pub enum ") {
            in_enum = true;
            last_doc = None;
            continue;
        }
        if !in_enum {
            continue;
        }
        if l == "}" {
            break;
        }
        if let Some(d) = l.strip_prefix("/// ") {
            last_doc = Some(d.to_string());
        } else if let Some((_, rhs)) = l.split_once('=') {
            let num = rhs.trim().trim_end_matches(',').trim();
            if let (Some(doc), Ok(n)) = (last_doc.take(), num.parse::<u32>()) {
                out.push((doc, n));
            } else {
                return None;
            }
        }
    }
    if out.len() < 50 {
        return None;
    }
    Some(out)
}

pub fn run(ctx: &Ctx) {
    ctx.set_rule(
        "Exhaustive over the specification graph (all element names, attribute names, enumeration items, versions, \
         every (type, version, listed sub-element), every (type, listed attribute), every reference type x named type) \
         plus generated non-members (all one-edit neighbours of every member, long / non-UTF-8 / random strings). \
         Every enumerated fact and every neighbour is a distinct case by construction; random non-members are distinct by hash. \
         Non-trivial: all table facts; for lookups, members and strings within one edit of a member (random strings count \
         only when they share a 3-byte prefix with a member).",
    );
    ctx.assume("the listing of a table is what the public iterators (sub_element_spec_iter, attribute_spec_iter, Enum items) report, plus the variant list read from the generated source files");
    let si = SpecIndex::get();
    let mut st = Stats::new();

    // ---- 1. names: round trip, injectivity, second listing
    let mut extra: HashMap<&'static str, HashSet<Vec<u8>>> = HashMap::new();
    for (table, file) in [(Table::Element, "elementname.rs"), (Table::Attribute, "attributename.rs"), (Table::Enum, "enumitem.rs")] {
        let m = members(table);
        let mut seen: HashSet<&[u8]> = HashSet::new();
        for t in &m.texts {
            st.eval();
            st.nontrivial_constructed();
            if !seen.insert(t.as_bytes()) {
                ctx.report(Failure::new(
                    format!("text-not-injective:{}", table.name()),
                    format!("two {} items share the text {:?}", table.name(), t),
                    json!({"kind":"lookup","table":table.name(),"input":bytes_json(t.as_bytes())}),
                ));
            }
        }
        let mut ex = HashSet::new();
        match source_listing(file) {
            Some(list) => {
                st.class_n(&format!("source-listing:{}", table.name()), list.len() as u64);
                let mut by_val: BTreeMap<u32, &str> = BTreeMap::new();
                for (text, val) in &list {
                    st.eval();
                    st.nontrivial_constructed();
                    ex.insert(text.as_bytes().to_vec());
                    if let Some(prev) = by_val.insert(*val, text) {
                        ctx.report(Failure::new(
                            format!("value-not-injective:{}", table.name()),
                            format!("{} items {:?} and {:?} share value {}", table.name(), prev, text, val),
                            json!({"kind":"tables"}),
                        ));
                    }
                    let (ok, val_got) = match table {
                        Table::Element => ElementName::from_bytes(text.as_bytes()).map(|x| (x.to_str() == text, x as u32)).unwrap_or((false, u32::MAX)),
                        Table::Attribute => AttributeName::from_bytes(text.as_bytes()).map(|x| (x.to_str() == text, x as u32)).unwrap_or((false, u32::MAX)),
                        Table::Enum => EnumItem::from_bytes(text.as_bytes()).map(|x| (x.to_str() == text, x as u32)).unwrap_or((false, u32::MAX)),
                        Table::Version => (true, *val),
                    };
                    if !ok || val_got != *val {
                        ctx.report(Failure::new(
                            format!("source-listing-roundtrip:{}", table.name()),
                            format!("{} item {:?} = {} of the source listing does not round-trip (lookup ok+same text: {}, value {})", table.name(), text, val, ok, val_got),
                            json!({"kind":"lookup","table":table.name(),"input":bytes_json(text.as_bytes())}),
                        ));
                    }
                }
            }
            None => {
                st.class(&format!("source-listing-unrecognised:{}", table.name()));
            }
        }
        extra.insert(table.name(), ex);
    }
    extra.insert("version", HashSet::new());

    // ---- 2. lookups: members and all one-edit neighbours (exhaustive), in parallel
    for table in [Table::Element, Table::Attribute, Table::Enum, Table::Version] {
        let m = members(table);
        let ex = &extra[table.name()];
        let mut all: Vec<&[u8]> = m.texts.iter().map(|t| t.as_bytes()).collect();
        let exv: Vec<&Vec<u8>> = ex.iter().collect();
        for e in &exv {
            if !m.set.contains(e.as_slice()) {
                all.push(e.as_slice());
            }
        }
        all.sort();
        let sample_every = (all.len() / 3).max(1);
        let idx: Vec<usize> = (0..all.len()).collect();
        par_items(ctx, &idx, |i, st| {
            let t = all[*i];
            let mut nb = vec![t.to_vec()];
            neighbours(t, &mut nb);
            let mut acc = 0;
            for s in &nb {
                st.eval();
                st.nontrivial_constructed();
                match check_lookup(&m, ex, s) {
                    Ok(true) => acc += 1,
                    Ok(false) => {}
                    Err(f) => {
                        ctx.report(f);
                    }
                }
            }
            st.class_n(&format!("lookup-accepted:{}", table.name()), acc);
            st.class_n(&format!("lookup-rejected:{}", table.name()), nb.len() as u64 - acc);
            if *i % sample_every == 0 && st.want_sample() {
                st.sample(json!({"table": table.name(), "member": String::from_utf8_lossy(t), "neighbours_tried": nb.len(),
                    "example_neighbour": String::from_utf8_lossy(&nb[nb.len()/2])}));
            }
        });
        // special strings
        let mut specials: Vec<Vec<u8>> = vec![vec![], vec![0], vec![0xFF], vec![0xC3, 0x28], b" ".to_vec(), b"\n".to_vec()];
        for len in [1024usize, 4096, 65536] {
            specials.push(vec![b'A'; len]);
            let mut v = m.texts[0].as_bytes().to_vec();
            v.resize(len, b'-');
            specials.push(v);
            let mut v = vec![0xFFu8; len];
            v[0] = b'A';
            specials.push(v);
        }
        for s in &specials {
            st.eval();
            st.nontrivial_constructed();
            if let Err(f) = check_lookup(&m, ex, s) {
                ctx.report(f);
            }
        }
    }
    ctx.exhaustive_part("all members of the four name tables and all their one-edit neighbours");

    // ---- 3. random non-members via proptest (name alphabet; recombined member fragments)
    let ncases = ctx.tier.pick(4_000_000u64, 40_000_000u64);
    {
        let tabs: Vec<Members> = [Table::Element, Table::Attribute, Table::Enum, Table::Version].into_iter().map(members).collect();
        let prefixes: Vec<HashSet<Vec<u8>>> = tabs.iter().map(|m| m.texts.iter().filter(|t| t.len() >= 3).map(|t| t.as_bytes()[..3].to_vec()).collect()).collect();
        let strat = (
            0usize..4,
            prop_oneof![
                // name alphabet
                proptest::collection::vec(prop_oneof![Just(b'-'), Just(b'_'), b'A'..=b'Z', b'0'..=b'9', b'a'..=b'z'], 0..24),
                // arbitrary bytes
                proptest::collection::vec(any::<u8>(), 0..40),
            ],
            any::<(u16, u16, u8)>(),
            0u8..4,
        );
        run_prop(ctx, "random-nonmembers", ncases, strat, |(ti, raw, (a, b, cut), mode), st| {
            let m = &tabs[*ti];
            // modes: 0 raw string; 1 two member fragments glued; 2 member + raw; 3 raw + member
            let ma = m.texts[(*a as usize * m.texts.len()) >> 16].as_bytes();
            let mb = m.texts[(*b as usize * m.texts.len()) >> 16].as_bytes();
            let s: Vec<u8> = match mode {
                0 => raw.clone(),
                1 => {
                    let ca = (*cut as usize * (ma.len() + 1)) >> 8;
                    let cb = (*cut as usize * (mb.len() + 1)) >> 8;
                    [&ma[..ca], &mb[cb..]].concat()
                }
                2 => [ma, raw.as_slice()].concat(),
                _ => [raw.as_slice(), ma].concat(),
            };
            st.eval();
            if s.len() >= 3 && prefixes[*ti].contains(&s[..3]) {
                st.nontrivial(fnv(&s) ^ (*ti as u64));
            }
            if st.want_sample() && *mode == 1 {
                st.sample(json!({"table": m.table.name(), "random_input": String::from_utf8_lossy(&s)}));
            }
            match check_lookup(m, &extra[m.table.name()], &s) {
                Ok(acc) => {
                    st.class(if acc { "random-accepted" } else { "random-rejected" });
                    Outcome::Pass
                }
                Err(f) => Outcome::Fail(f),
            }
        });
    }

    // ---- 4. versions
    for v in versions() {
        st.eval();
        st.nontrivial_constructed();
        let ok1 = AutosarVersion::from_str(v.filename()).ok() == Some(*v);
        let ok2 = AutosarVersion::from_val(*v as u32) == Some(*v);
        let bit = *v as u32;
        if !ok1 || !ok2 || bit.count_ones() != 1 {
            ctx.report(Failure::new(
                "version-roundtrip",
                format!("version {:?}: filename round trip {}, value round trip {}, value {:#x}", v, ok1, ok2, bit),
                json!({"kind":"version","value": bit}),
            ));
        }
    }
    if versions().len() != NVER {
        ctx.report(Failure::new("version-count", format!("{} versions found through from_val, expected {}", versions().len(), NVER), json!({"kind":"version"})));
    }
    let fnames: HashSet<&str> = versions().iter().map(|v| v.filename()).collect();
    if fnames.len() != versions().len() {
        ctx.report(Failure::new("version-filename-injective", "two versions share a schema file name", json!({"kind":"version"})));
    }
    let vbits: HashSet<u32> = versions().iter().map(|v| *v as u32).collect();
    let check_val = |n: u32| -> Option<Failure> {
        let got = AutosarVersion::from_val(n);
        let want = vbits.contains(&n);
        if got.is_some() != want || got.is_some_and(|g| g as u32 != n) {
            Some(Failure::new(
                "from_val",
                format!("AutosarVersion::from_val({n:#x}) = {:?}, but the value {} a version bit", got, if want { "is" } else { "is not" }),
                json!({"kind":"from_val","value": n}),
            ))
        } else {
            None
        }
    };
    // structured values: single bits, two bits, neighbours
    let mut vals: Vec<u32> = vec![0, u32::MAX];
    for i in 0..32 {
        vals.push(1 << i);
        vals.push((1u32 << i).wrapping_sub(1));
        vals.push((1u32 << i).wrapping_add(1));
        vals.push(!(1u32 << i));
        for j in 0..i {
            vals.push(1 << i | 1 << j);
        }
    }
    for n in &vals {
        st.eval();
        st.nontrivial_constructed();
        if let Some(f) = check_val(*n) {
            ctx.report(f);
        }
    }
    if ctx.tier == Tier::Thorough {
        // all 2^32 values
        let chunks: Vec<u32> = (0..4096).collect();
        par_items(ctx, &chunks, |c, st| {
            let base = (*c as u64) << 20;
            let mut somes = 0u64;
            for n in base..base + (1 << 20) {
                let n = n as u32;
                let got = AutosarVersion::from_val(n);
                if got.is_some() {
                    somes += 1;
                }
                if got.is_some() != (n.count_ones() == 1 && n < (1 << NVER)) {
                    if let Some(f) = check_val(n) {
                        ctx.report(f);
                    }
                }
            }
            st.evaluations += 1 << 20;
            st.distinct_by_construction += 1 << 20;
            st.class_n("from_val-some", somes);
        });
        ctx.exhaustive_part("AutosarVersion::from_val over all 2^32 values");
    } else {
        run_prop(ctx, "from_val", 200_000, any::<u32>(), |n, st| {
            st.eval();
            match check_val(*n) {
                None => Outcome::Pass,
                Some(f) => Outcome::Fail(f),
            }
        });
    }
    ctx.merge(st);

    // ---- 5. sub-element and attribute lookups vs listings (exhaustive)
    let tids: Vec<usize> = (0..si.types.len()).collect();
    let all_names: &Vec<ElementName> = &si.element_names;
    let all_attrs: &Vec<AttributeName> = &si.attribute_names;
    let neg_stride = ctx.tier.pick(11usize, 1usize);
    par_items(ctx, &tids, |tid, st| {
        let ti = &si.types[*tid];
        let et = ti.etype;
        // positive direction
        for s in &ti.subs {
            for vi in 0..NVER {
                let vbit = 1u32 << vi;
                if s.mask & vbit == 0 {
                    continue;
                }
                st.eval();
                st.nontrivial_constructed();
                let fail = |why: String| {
                    Failure::new(
                        "sub-element-lookup",
                        format!("type #{} {:?}: sub element {} listed with mask {:#x}, version bit {:#x}: {}", tid, et, s.name, s.mask, vbit, why),
                        json!({"kind":"sub-element","tid": tid, "name": s.name.to_str(), "vbit": vbit}),
                    )
                };
                match et.find_sub_element(s.name, vbit) {
                    None => {
                        ctx.report(fail("find_sub_element returns None".into()));
                    }
                    Some((ft, idx)) => {
                        let listed = ti.subs.iter().any(|o| o.name == s.name && o.etype == ft && o.mask & vbit != 0);
                        if !listed {
                            ctx.report(fail(format!("find_sub_element returns type {:?} which is not listed for this name in this version", ft)));
                        }
                        match et.get_sub_element_version_mask(&idx) {
                            Some(m) if m & vbit != 0 => {}
                            other => {
                                ctx.report(fail(format!("get_sub_element_version_mask({:?}) = {:?} does not contain the version", idx, other)));
                            }
                        }
                        if et.get_sub_element_multiplicity(&idx).is_none() {
                            ctx.report(fail(format!("get_sub_element_multiplicity({:?}) is None for a found element", idx)));
                        }
                    }
                }
            }
            // lookup with the complete mask must find a listed type as well
            st.eval();
            if let Some((ft, _)) = et.find_sub_element(s.name, u32::MAX) {
                if !ti.subs.iter().any(|o| o.name == s.name && o.etype == ft) {
                    ctx.report(Failure::new("sub-element-lookup", format!("type #{tid}: find_sub_element({}, MAX) returns an unlisted type", s.name), json!({"kind":"sub-element","tid":tid,"name":s.name.to_str(),"vbit":u32::MAX})));
                }
            } else {
                ctx.report(Failure::new("sub-element-lookup", format!("type #{tid}: find_sub_element({}, MAX) finds nothing", s.name), json!({"kind":"sub-element","tid":tid,"name":s.name.to_str(),"vbit":u32::MAX})));
            }
        }
        // negative direction: names not listed (in the version) are not found
        let listed_any: HashSet<u16> = ti.subs.iter().map(|s| s.name as u16).collect();
        let mut k = (*tid * 31) % neg_stride;
        while k < all_names.len() {
            let n = all_names[k];
            k += neg_stride;
            if listed_any.contains(&(n as u16)) {
                continue;
            }
            st.eval();
            st.nontrivial_constructed();
            if et.find_sub_element(n, u32::MAX).is_some() {
                ctx.report(Failure::new("sub-element-phantom", format!("type #{tid} {:?}: find_sub_element finds {} which the listing does not contain", et, n), json!({"kind":"sub-element","tid":tid,"name":n.to_str(),"vbit":u32::MAX})));
            }
        }
        for s in &ti.subs {
            // version bits outside every listed mask of this name
            let union: u32 = ti.subs.iter().filter(|o| o.name == s.name).map(|o| o.mask).fold(0, |a, b| a | b);
            for vi in 0..NVER {
                let vbit = 1u32 << vi;
                if union & vbit == 0 {
                    st.eval();
                    st.nontrivial_constructed();
                    if et.find_sub_element(s.name, vbit).is_some() {
                        ctx.report(Failure::new("sub-element-phantom-version", format!("type #{tid}: {} found in version bit {:#x} outside its listed masks {:#x}", s.name, vbit, union), json!({"kind":"sub-element","tid":tid,"name":s.name.to_str(),"vbit":vbit})));
                    }
                }
            }
        }
        // attributes
        let listed_attr: HashSet<u16> = ti.attrs.iter().map(|a| a.name as u16).collect();
        for a in &ti.attrs {
            st.eval();
            st.nontrivial_constructed();
            match et.find_attribute_spec(a.name) {
                Some(spec) if std::ptr::eq(spec.spec, a.spec) && spec.required == a.required => {}
                Some(spec) => {
                    // the same attribute name listed twice? then the first listing wins; accept if some listing matches
                    if !ti.attrs.iter().any(|o| o.name == a.name && std::ptr::eq(o.spec, spec.spec) && o.required == spec.required) {
                        ctx.report(Failure::new("attribute-lookup", format!("type #{tid}: find_attribute_spec({}) disagrees with attribute_spec_iter", a.name), json!({"kind":"attribute","tid":tid,"name":a.name.to_str()})));
                    }
                }
                None => {
                    ctx.report(Failure::new("attribute-lookup", format!("type #{tid}: listed attribute {} not found", a.name), json!({"kind":"attribute","tid":tid,"name":a.name.to_str()})));
                }
            }
        }
        for an in all_attrs {
            if !listed_attr.contains(&(*an as u16)) {
                st.eval();
                st.nontrivial_constructed();
                if et.find_attribute_spec(*an).is_some() {
                    ctx.report(Failure::new("attribute-phantom", format!("type #{tid}: unlisted attribute {} found", an), json!({"kind":"attribute","tid":tid,"name":an.to_str()})));
                }
            }
        }
        if *tid % 3001 == 7 && st.want_sample() {
            st.sample(json!({"type": format!("{:?}", et), "listed_sub_elements": ti.subs.iter().take(6).map(|s| format!("{} mask={:#x}", s.name, s.mask)).collect::<Vec<_>>(),
                "listed_attributes": ti.attrs.iter().map(|a| a.name.to_str()).collect::<Vec<_>>()}));
        }
    });
    ctx.exhaustive_part("every (element type, version, listed sub-element) and (element type, attribute name) lookup");

    // ---- 6. reference DEST: all reference types x named types
    let refs: Vec<usize> = (0..si.types.len()).filter(|t| si.types[*t].etype.is_ref()).collect();
    let named: Vec<usize> = (0..si.types.len()).filter(|t| si.types[*t].etype.is_named()).collect();
    par_items(ctx, &refs, |r, st| {
        let rt = si.types[*r].etype;
        let dest_items: Option<Vec<EnumItem>> = rt.find_attribute_spec(AttributeName::Dest).and_then(|s| match s.spec {
            CharacterDataSpec::Enum { items } => Some(items.iter().map(|(i, _)| *i).collect()),
            _ => None,
        });
        let mut some = 0u64;
        for n in &named {
            let nt = si.types[*n].etype;
            st.eval();
            st.nontrivial_constructed();
            if let Some(d) = rt.reference_dest_value(&nt) {
                some += 1;
                let ok_target = nt.verify_reference_dest(d);
                let ok_enum = dest_items.as_ref().is_some_and(|it| it.contains(&d));
                if !ok_target || !ok_enum {
                    ctx.report(Failure::new(
                        "reference-dest",
                        format!("reference type #{r} -> named type #{n}: proposed DEST {} accepted by target: {}, member of the reference's DEST enumeration: {}", d, ok_target, ok_enum),
                        json!({"kind":"reference-dest","ref_tid": r, "named_tid": n}),
                    ));
                }
            }
        }
        st.class_n("dest-proposed", some);
        st.class_n("dest-none", named.len() as u64 - some);
        if *r == refs[refs.len() / 2] {
            st.sample(json!({"reference_type": format!("{:?}", rt), "named_types_tried": named.len(), "dest_proposed_for": some}));
        }
    });
    ctx.exhaustive_part("reference_dest_value over all reference types x all named types");
    // non-reference or non-named operands must give None
    let mut st = Stats::new();
    for t in (0..si.types.len()).step_by(7) {
        let a = si.types[t].etype;
        for u in (0..si.types.len()).step_by(ctx.tier.pick(211, 13)) {
            let b = si.types[u].etype;
            if !a.is_ref() || !b.is_named() {
                st.eval();
                if a.reference_dest_value(&b).is_some() {
                    ctx.report(Failure::new("reference-dest-phantom", format!("reference_dest_value proposes a DEST from non-reference or to non-named type (#{t} -> #{u})"), json!({"kind":"reference-dest","ref_tid":t,"named_tid":u})));
                }
            }
        }
    }
    st.class_n("types", si.types.len() as u64);
    st.class_n("reference-types", refs.len() as u64);
    st.class_n("named-types", named.len() as u64);
    ctx.merge(st);
}

pub fn replay(ctx: &Ctx, case: &Value) {
    // every C18 case is re-decided by the exhaustive table checks or by a single lookup
    if case["kind"] == "lookup" {
        if let Some(t) = case["table"].as_str().and_then(Table::from_name) {
            let m = members(t);
            let s = bytes_from_json(&case["input"]);
            let mut ex = HashSet::new();
            let file = match t {
                Table::Element => "elementname.rs",
                Table::Attribute => "attributename.rs",
                Table::Enum => "enumitem.rs",
                Table::Version => "",
            };
            if let Some(l) = source_listing(file) {
                for (text, _) in l {
                    ex.insert(text.into_bytes());
                }
            }
            let mut st = Stats::new();
            st.eval();
            ctx.merge(st);
            if let Err(f) = check_lookup(&m, &ex, &s) {
                ctx.report(f);
            }
            return;
        }
    }
    run(ctx);
}
