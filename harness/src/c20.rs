//! C20 — typed values format and parse consistently; numeric interpretation is exact.
use crate::adoc::*;
use crate::engine::*;
use crate::spec::*;
use autosar_data::*;
use autosar_data_specification::{CharacterDataSpec, ElementType};
use proptest::prelude::*;
use serde_json::{json, Value};
use std::collections::HashMap;

// ---------------------------------------------------------------------------------------------
// tiny big-unsigned arithmetic (little endian u32 limbs) for the exact float oracle

#[derive(Clone, Debug, PartialEq, Eq)]
pub struct Big(Vec<u32>);

impl Big {
    pub fn from_u128(mut v: u128) -> Big {
        let mut l = vec![];
        while v > 0 {
            l.push(v as u32);
            v >>= 32;
        }
        Big(l)
    }
    pub fn zero() -> Big {
        Big(vec![])
    }
    pub fn is_zero(&self) -> bool {
        self.0.iter().all(|x| *x == 0)
    }
    pub fn mul_small(&mut self, m: u32) {
        let mut carry = 0u64;
        for l in &mut self.0 {
            let v = *l as u64 * m as u64 + carry;
            *l = v as u32;
            carry = v >> 32;
        }
        if carry > 0 {
            self.0.push(carry as u32);
        }
    }
    pub fn add_small(&mut self, a: u32) {
        let mut carry = a as u64;
        for l in &mut self.0 {
            if carry == 0 {
                break;
            }
            let v = *l as u64 + carry;
            *l = v as u32;
            carry = v >> 32;
        }
        if carry > 0 {
            self.0.push(carry as u32);
        }
    }
    pub fn shl(&mut self, bits: u32) {
        let words = (bits / 32) as usize;
        let b = bits % 32;
        if b > 0 {
            let mut carry = 0u32;
            for l in &mut self.0 {
                let v = (*l as u64) << b | carry as u64;
                *l = v as u32;
                carry = (v >> 32) as u32;
            }
            if carry > 0 {
                self.0.push(carry);
            }
        }
        if words > 0 {
            let mut n = vec![0u32; words];
            n.extend_from_slice(&self.0);
            self.0 = n;
        }
    }
    pub fn mul_pow10(&mut self, e: u32) {
        for _ in 0..e {
            self.mul_small(10);
        }
    }
    fn norm_len(&self) -> usize {
        let mut n = self.0.len();
        while n > 0 && self.0[n - 1] == 0 {
            n -= 1;
        }
        n
    }
    pub fn cmp(&self, o: &Big) -> std::cmp::Ordering {
        let (a, b) = (self.norm_len(), o.norm_len());
        if a != b {
            return a.cmp(&b);
        }
        for i in (0..a).rev() {
            if self.0[i] != o.0[i] {
                return self.0[i].cmp(&o.0[i]);
            }
        }
        std::cmp::Ordering::Equal
    }
    pub fn from_digits(digits: &[u8], radix: u32) -> Big {
        let mut b = Big::zero();
        for d in digits {
            let v = (*d as char).to_digit(radix).expect("digit");
            b.mul_small(radix);
            b.add_small(v);
        }
        b
    }
}

/// compare n * 10^e10 with a * 2^e2
fn cmp_scaled(n: &Big, e10: i32, a: &Big, e2: i32) -> std::cmp::Ordering {
    let mut l = n.clone();
    let mut r = a.clone();
    if e10 >= 0 {
        l.mul_pow10(e10 as u32);
    } else {
        r.mul_pow10((-e10) as u32);
    }
    if e2 >= 0 {
        r.shl(e2 as u32);
    } else {
        l.shl((-e2) as u32);
    }
    l.cmp(&r)
}

#[derive(Debug, PartialEq, Eq)]
pub enum Rounding {
    Correct,
    Wrong,
    /// the exact value is beyond the largest finite double: not judged
    Overflow,
}

/// is r the correctly rounded double of (-1)^neg * n * 10^e10 ?
pub fn judge_rounding(neg: bool, n: &Big, e10: i32, r: f64) -> Rounding {
    use std::cmp::Ordering::*;
    // overflow region: x >= 2^1024 - 2^970  (= (2^54 - 1) * 2^970)
    let lim = Big::from_u128((1u128 << 54) - 1);
    if cmp_scaled(n, e10, &lim, 970) != Less {
        return Rounding::Overflow;
    }
    if r.is_nan() || r.is_infinite() {
        return Rounding::Wrong;
    }
    if n.is_zero() {
        return if r == 0.0 { Rounding::Correct } else { Rounding::Wrong };
    }
    if r != 0.0 && (r < 0.0) != neg {
        return Rounding::Wrong;
    }
    let bits = r.abs().to_bits();
    let e = (bits >> 52) as i32;
    let f = bits & ((1u64 << 52) - 1);
    let (m, q): (u64, i32) = if e == 0 { (f, -1074) } else { (f | (1u64 << 52), e - 1075) };
    // upper midpoint (2m+1) * 2^(q-1)
    let upper = Big::from_u128(2 * m as u128 + 1);
    let cu = cmp_scaled(n, e10, &upper, q - 1);
    if cu == Greater || (cu == Equal && m % 2 == 1) {
        return Rounding::Wrong;
    }
    if m == 0 {
        return Rounding::Correct;
    }
    // lower midpoint
    let (lower, lq) = if f == 0 && e > 1 { (Big::from_u128(4 * m as u128 - 1), q - 2) } else { (Big::from_u128(2 * m as u128 - 1), q - 1) };
    let cl = cmp_scaled(n, e10, &lower, lq);
    if cl == Less || (cl == Equal && m % 2 == 1) {
        return Rounding::Wrong;
    }
    Rounding::Correct
}

// ---------------------------------------------------------------------------------------------
// integer texts with their exact value

#[derive(Clone, Debug)]
pub struct IntText {
    pub text: String,
    pub neg: bool,
    /// magnitude, None when it exceeds u128
    pub mag: Option<u128>,
    pub big: Big,
}

fn mag_of(digits: &str, radix: u32) -> (Option<u128>, Big) {
    let mut m: Option<u128> = Some(0);
    for d in digits.bytes() {
        let v = (d as char).to_digit(radix).unwrap() as u128;
        m = m.and_then(|x| x.checked_mul(radix as u128)).and_then(|x| x.checked_add(v));
    }
    (m, Big::from_digits(digits.as_bytes(), radix))
}

/// build an integer text in one of the AUTOSAR lexical forms from generated parts
pub fn int_text(form: u8, sign: u8, digits: &[u8], leading_zeros: u8) -> IntText {
    let radix = match form % 5 {
        0 | 1 => 10,
        2 => 16,
        3 => 2,
        _ => 8,
    };
    let mut ds: String = digits.iter().map(|d| std::char::from_digit((*d as u32) % radix, radix).unwrap()).collect();
    if form % 5 == 2 && digits.first().is_some_and(|d| d & 0x80 != 0) {
        ds = ds.to_uppercase();
    }
    if ds.is_empty() {
        ds.push('1');
    }
    match radix {
        10 => {
            let t = ds.trim_start_matches('0');
            if t.is_empty() {
                return IntText { text: "0".into(), neg: false, mag: Some(0), big: Big::zero() };
            }
            let (sg, neg) = match sign % 3 {
                0 => ("", false),
                1 => ("+", false),
                _ => ("-", true),
            };
            let (mag, big) = mag_of(t, 10);
            IntText { text: format!("{sg}{t}"), neg, mag, big }
        }
        _ => {
            let zeros = "0".repeat((leading_zeros % 3) as usize);
            let body = format!("{zeros}{ds}");
            let prefix = match (radix, sign % 2) {
                (16, 0) => "0x",
                (16, _) => "0X",
                (2, 0) => "0b",
                (2, _) => "0B",
                _ => "0",
            };
            let (mag, big) = mag_of(&body, radix);
            IntText { text: format!("{prefix}{body}"), neg: false, mag, big }
        }
    }
}

macro_rules! check_int_type {
    ($t:ty, $it:expr, $fails:expr, $st:expr) => {{
        let it: &IntText = $it;
        let got: Option<$t> = CharacterData::String(it.text.clone()).parse_integer::<$t>();
        let expected: Option<$t> = match it.mag {
            None => None,
            Some(m) => {
                if it.neg {
                    // -m >= MIN  <=>  m <= |MIN|
                    let min_abs: u128 = (<$t>::MIN as i128).unsigned_abs();
                    if (<$t>::MIN as i128) < 0 && m <= min_abs {
                        Some((-(m as i128)) as $t)
                    } else if m == 0 {
                        Some(0 as $t)
                    } else {
                        None
                    }
                } else if m <= <$t>::MAX as u128 {
                    Some(m as $t)
                } else {
                    None
                }
            }
        };
        $st.eval();
        if got != expected {
            $fails.push(Failure::new(
                format!("parse_integer:{}:{}", stringify!($t), if expected.is_none() { "returns-number-that-does-not-fit" } else if got.is_none() { "returns-nothing-for-fitting-text" } else { "wrong-number" }),
                format!("parse_integer::<{}>({:?}) = {:?}, exact value {}{:?} => expected {:?}", stringify!($t), it.text, got, if it.neg { "-" } else { "" }, it.mag, expected),
                json!({"kind": "int", "text": it.text}),
            ));
        }
    }};
}

pub fn check_int(it: &IntText, st: &mut Stats) -> Vec<Failure> {
    let mut fails = vec![];
    check_int_type!(u8, it, fails, st);
    check_int_type!(u16, it, fails, st);
    check_int_type!(u32, it, fails, st);
    check_int_type!(u64, it, fails, st);
    check_int_type!(usize, it, fails, st);
    check_int_type!(i8, it, fails, st);
    check_int_type!(i16, it, fails, st);
    check_int_type!(i32, it, fails, st);
    check_int_type!(i64, it, fails, st);
    check_int_type!(isize, it, fails, st);
    // u128 / i128: TryFrom<u64> holds for both
    {
        let got = CharacterData::String(it.text.clone()).parse_integer::<u128>();
        let exp = if it.neg && it.mag != Some(0) { None } else { it.mag };
        st.eval();
        if got != exp {
            fails.push(Failure::new("parse_integer:u128", format!("parse_integer::<u128>({:?}) = {:?}, expected {:?}", it.text, got, exp), json!({"kind":"int","text":it.text})));
        }
        let got = CharacterData::String(it.text.clone()).parse_integer::<i128>();
        let exp: Option<i128> = match it.mag {
            None => None,
            Some(m) => {
                if it.neg {
                    if m <= i128::MIN.unsigned_abs() {
                        Some((m as i128).wrapping_neg())
                    } else {
                        None
                    }
                } else if m <= i128::MAX as u128 {
                    Some(m as i128)
                } else {
                    None
                }
            }
        };
        st.eval();
        if got != exp {
            fails.push(Failure::new("parse_integer:i128", format!("parse_integer::<i128>({:?}) = {:?}, expected {:?}", it.text, got, exp), json!({"kind":"int","text":it.text})));
        }
    }
    fails
}

/// integer-form texts interpreted as float: correctly rounded from the exact integer
pub fn check_int_as_float(it: &IntText, st: &mut Stats) -> Option<Failure> {
    st.eval();
    let got = CharacterData::String(it.text.clone()).parse_float();
    match got {
        None => {
            let radix_form = it.text.len() > 1 && it.text.starts_with('0');
            let sig = if radix_form && it.mag.is_none_or(|m| m > u64::MAX as u128) { "parse_float:radix-literal-above-u64-gives-nothing" } else { "parse_float:nothing-for-integer-text" };
            if judge_rounding(it.neg, &it.big, 0, 0.0) == Rounding::Overflow {
                return None;
            }
            Some(Failure::new(sig, format!("parse_float({:?}) returns nothing although the value fits a double", it.text), json!({"kind":"int","text":it.text})))
        }
        Some(r) => match judge_rounding(it.neg, &it.big, 0, r) {
            Rounding::Correct | Rounding::Overflow => None,
            Rounding::Wrong => Some(Failure::new(
                if it.text.len() > 1 && it.text.starts_with('0') && it.text.bytes().all(|b| (b'0'..=b'7').contains(&b)) && it.mag.is_none_or(|m| m > u64::MAX as u128) {
                    "parse_float:octal-literal-above-u64-read-as-decimal"
                } else {
                    "parse_float:integer-text-misrounded"
                },
                format!("parse_float({:?}) = {:e} is not the correctly rounded value", it.text, r), json!({"kind":"int","text":it.text}))),
        },
    }
}

#[derive(Clone, Debug)]
pub struct FloatText {
    pub text: String,
    pub neg: bool,
    pub digits: String,
    pub e10: i32,
}

/// decimal float text: [sign] int [. frac] [e exp] restricted to the published pattern
/// ([+-]?[1-9][0-9]+(.[0-9]+)? | [+-]?[0-9](.[0-9]+)?) ([eE][+-]?[0-9]+)?
pub fn float_text(sign: u8, int_digits: &[u8], frac_digits: &[u8], exp: Option<(u8, i32)>, upper_e: bool) -> FloatText {
    let mut int: String = int_digits.iter().map(|d| (b'0' + d % 10) as char).collect();
    if int.is_empty() {
        int.push('0');
    }
    if int.len() > 1 && int.starts_with('0') {
        // "[1-9][0-9]+": replace the leading zero
        int.replace_range(0..1, "1");
    }
    let frac: String = frac_digits.iter().map(|d| (b'0' + d % 10) as char).collect();
    let (sg, neg) = match sign % 3 {
        0 => ("", false),
        1 => ("+", false),
        _ => ("-", true),
    };
    let mut text = format!("{sg}{int}");
    if !frac.is_empty() {
        text.push('.');
        text.push_str(&frac);
    }
    let mut e10 = -(frac.len() as i32);
    if let Some((es, ev)) = exp {
        text.push(if upper_e { 'E' } else { 'e' });
        if ev < 0 {
            text.push('-');
        } else if es % 3 == 1 {
            text.push('+');
        }
        text.push_str(&ev.abs().to_string());
        e10 += ev;
    }
    FloatText { text, neg, digits: format!("{int}{frac}"), e10 }
}

pub fn check_float_text(ft: &FloatText, st: &mut Stats) -> Option<Failure> {
    st.eval();
    let n = Big::from_digits(ft.digits.as_bytes(), 10);
    let got = CharacterData::String(ft.text.clone()).parse_float();
    match got {
        None => {
            if judge_rounding(ft.neg, &n, ft.e10, 0.0) == Rounding::Overflow {
                st.dontcare("float-overflow");
                return None;
            }
            Some(Failure::new("parse_float:nothing-for-decimal-text", format!("parse_float({:?}) returns nothing", ft.text), json!({"kind":"float","text":ft.text})))
        }
        Some(r) => match judge_rounding(ft.neg, &n, ft.e10, r) {
            Rounding::Correct => None,
            Rounding::Overflow => {
                st.dontcare("float-overflow");
                None
            }
            Rounding::Wrong => Some(Failure::new("parse_float:decimal-text-misrounded", format!("parse_float({:?}) = {:e} ({:#x}) is not the correctly rounded value", ft.text, r, r.to_bits()), json!({"kind":"float","text":ft.text}))),
        },
    }
}

fn check_specials(ctx: &Ctx, st: &mut Stats) {
    let cases: [(&str, Option<f64>); 8] = [("INF", Some(f64::INFINITY)), ("-INF", Some(f64::NEG_INFINITY)), ("NaN", Some(f64::NAN)), (".0", Some(0.0)), ("0", Some(0.0)), ("-0.0", Some(-0.0)), ("1", Some(1.0)), ("00", Some(0.0))];
    for (t, exp) in cases {
        st.eval();
        st.nontrivial_constructed();
        let got = CharacterData::String(t.to_string()).parse_float();
        let ok = match (got, exp) {
            (Some(a), Some(b)) => (a.is_nan() && b.is_nan()) || a == b,
            (None, None) => true,
            _ => false,
        };
        if !ok {
            ctx.report(Failure::new("parse_float:special", format!("parse_float({t:?}) = {:?}, expected {:?}", got, exp), json!({"kind":"float-special","text":t})));
        }
    }
    for (t, exp) in [("true", Some(true)), ("1", Some(true)), ("false", Some(false)), ("0", Some(false)), ("TRUE", None), ("yes", None), ("", None), ("2", None), ("01", None), (" true", None)] {
        st.eval();
        st.nontrivial_constructed();
        let got = CharacterData::String(t.to_string()).parse_bool();
        // texts outside the boolean pattern are only required not to yield a different value: None expected
        if got != exp {
            ctx.report(Failure::new("parse_bool", format!("parse_bool({t:?}) = {:?}, expected {:?}", got, exp), json!({"kind":"bool","text":t})));
        }
    }
    // native values
    for v in [0u64, 1, 255, 256, u64::MAX] {
        st.eval();
        if CharacterData::UnsignedInteger(v).parse_integer::<u64>() != Some(v) || CharacterData::UnsignedInteger(v).parse_integer::<u8>() != u8::try_from(v).ok() {
            ctx.report(Failure::new("parse_integer:native", format!("parse_integer of UnsignedInteger({v})"), json!({"kind":"native","v":v})));
        }
    }
}

// ---------------------------------------------------------------------------------------------
// format / parse round trip through element and attribute slots

pub struct Slots {
    pub model: AutosarModel,
    pub file: ArxmlFile,
    /// element slot per value kind
    pub by_spec: HashMap<usize, Element>,
}

/// build one element of the given type through the API, along its witness path
pub fn api_witness(model: &AutosarModel, vi: usize, tid: usize, counter: &mut usize) -> Option<Element> {
    let si = SpecIndex::get();
    let path = si.witness_path(vi, tid)?;
    let version = versions()[vi];
    let mut cur = model.root_element();
    for (t, name) in path {
        let et = si.types[t].etype;
        if name == autosar_data_specification::ElementName::ShortName {
            cur = cur.get_sub_element(name)?;
            continue;
        }
        cur = if et.is_named_in_version(version) {
            *counter += 1;
            cur.create_named_sub_element(name, &format!("n{}", *counter)).ok()?
        } else {
            match cur.get_sub_element(name) {
                Some(e) if e.element_type() == et => e,
                _ => cur.create_sub_element(name).ok()?,
            }
        };
    }
    Some(cur)
}

fn roundtrip_value(vi: usize, tid: usize, v: &AVal, st: &mut Stats) -> Result<(), Failure> {
    let version = versions()[vi];
    let model = AutosarModel::new();
    let file = model.create_file("f.arxml", version).map_err(|e| Failure::new("harness", format!("create_file: {e}"), json!({})))?;
    let mut counter = 0;
    let Some(elem) = api_witness(&model, vi, tid, &mut counter) else {
        st.class("slot-not-buildable");
        return Ok(());
    };
    st.eval();
    let case = json!({"kind": "slot", "vi": vi, "tid": tid, "value": v.to_json()});
    if let Err(e) = elem.set_character_data(v.to_cdata()) {
        // soundness only: a rejected value is not a C20 violation (the statement is about formatting and parsing)
        st.class(&format!("set-rejected:{e}"));
        return Ok(());
    }
    let text = file.serialize().map_err(|e| Failure::new("slot:serialize", format!("{e}"), case.clone()))?;
    let m2 = AutosarModel::new();
    let (_f2, w) = m2.load_buffer(text.as_bytes(), "f.arxml", false).map_err(|e| Failure::new("slot:reload-rejected", format!("value {:?} in {}: reload fails: {e}", v, elem.element_name()), case.clone()))?;
    let _ = w;
    let xp = elem.xml_path();
    let e2 = m2.elements_dfs().map(|(_, e)| e).find(|e| e.xml_path() == xp && e.element_name() == elem.element_name());
    let got = e2.and_then(|e| e.character_data()).map(|c| AVal::from_cdata(&c));
    if got.as_ref() != Some(v) {
        let kind = match v {
            AVal::Str(s) if s.starts_with([' ', '\n', '\t']) || s.ends_with([' ', '\n', '\t']) => "string-with-outer-whitespace",
            AVal::Str(s) if s.is_empty() => "empty-string",
            AVal::Str(s) if s.contains('\r') => "string-with-cr",
            AVal::Str(_) => "string",
            AVal::Float(_) => "float",
            AVal::UInt(_) => "uint",
            _ => "enum",
        };
        return Err(Failure::new(format!("slot-roundtrip:{kind}"), format!("{} = {:?}: formatted and parsed back as {:?}\n{}", elem.element_name(), v, got, text), case));
    }
    Ok(())
}

pub fn run(ctx: &Ctx) {
    ctx.set_rule(
        "Texts in the AUTOSAR lexical forms are generated together with their exact value (sign x radix {decimal, 0x/0X, 0b/0B, leading-0 octal} x up to 40 digits x leading zeros; decimal fractions with exponents up to +-330; INF/-INF/NaN/.0; true/false/1/0) and interpreted for all 12 integer widths and as float; \
         integers are compared with exact u128 arithmetic, floats with an exact big-integer midpoint test (no float parsing in the oracle). Values of the four kinds (all enumeration items per version, strings over an alphabet with every escapable character, boundary-biased u64, f64 by bit class) are written to an element slot of the matching type, serialized, re-loaded and compared. \
         Non-trivial: radix prefix, sign, exponent, >= 17 significant digits, or a value within one unit of a type bound; distinct by (text) / (slot, value).",
    );
    ctx.assume("a float text whose exact value is beyond the largest finite double is not judged (the statement leaves overflow open)");
    let mut st = Stats::new();
    check_specials(ctx, &mut st);

    // boundary integers of every width in every radix (exhaustive over the constructed list)
    let mut bounds: Vec<u128> = vec![0, 1, 7, 8, 9, 10, 15, 16];
    for b in [7u32, 8, 15, 16, 31, 32, 63, 64, 127, 128] {
        let p: u128 = if b == 128 { u128::MAX } else { 1u128 << b };
        for d in [0i32, -1, 1, -2, 2] {
            bounds.push(if d < 0 { p.wrapping_sub((-d) as u128) } else { p.saturating_add(d as u128) });
        }
    }
    for m in &bounds {
        let mut texts: Vec<IntText> = vec![];
        let (mag, big) = (Some(*m), Big::from_u128(*m));
        for (text, neg) in [(format!("{m}"), false), (format!("+{m}"), false), (format!("-{m}"), true)] {
            if *m == 0 && text != "0" {
                continue;
            }
            texts.push(IntText { text, neg: neg && *m != 0, mag, big: big.clone() });
        }
        for text in [format!("0x{m:x}"), format!("0X{m:X}"), format!("0b{m:b}"), format!("0B{m:b}"), format!("0{m:o}"), format!("0x00{m:x}"), format!("00{m:o}")] {
            texts.push(IntText { text, neg: false, mag, big: big.clone() });
        }
        for it in &texts {
            st.nontrivial_constructed();
            for f in check_int(it, &mut st) {
                ctx.report(f);
            }
            if let Some(f) = check_int_as_float(it, &mut st) {
                ctx.report(f);
            }
        }
        if st.want_sample() && *m > 1000 {
            st.sample(json!({"boundary_integer_texts": texts.iter().map(|t| t.text.clone()).collect::<Vec<_>>()}));
        }
    }
    ctx.merge(st);

    // generated integer texts
    let cases = ctx.tier.pick(1_500_000u64, 15_000_000u64);
    let strat = (any::<u8>(), any::<u8>(), proptest::collection::vec(any::<u8>(), 1..41), any::<u8>());
    run_prop(ctx, "int-texts", cases, strat, |(form, sign, digits, lz), st| {
        let it = int_text(*form, *sign, digits, *lz);
        st.nontrivial(fnv(it.text.as_bytes()));
        st.class(match form % 5 {
            0 | 1 => "int:decimal",
            2 => "int:hex",
            3 => "int:binary",
            _ => "int:octal",
        });
        if st.want_sample() && it.text.len() > 12 {
            st.sample(json!({"integer_text": it.text, "exact_magnitude": it.mag.map(|m| m.to_string())}));
        }
        let mut fails = check_int(&it, st);
        if let Some(f) = check_int_as_float(&it, st) {
            fails.push(f);
        }
        match fails.into_iter().next() {
            None => Outcome::Pass,
            Some(f) => Outcome::Fail(f),
        }
    });

    // generated float texts
    let cases = ctx.tier.pick(2_000_000u64, 20_000_000u64);
    let strat = (
        any::<u8>(),
        proptest::collection::vec(any::<u8>(), 1..22),
        proptest::collection::vec(any::<u8>(), 0..24),
        proptest::option::weighted(0.7, (any::<u8>(), prop_oneof![-345i32..330, -30i32..30, Just(-324), Just(-323), Just(308), Just(309)])),
        any::<bool>(),
    );
    run_prop(ctx, "float-texts", cases, strat, |(sign, int, frac, exp, upper), st| {
        let ft = float_text(*sign, int, frac, *exp, *upper);
        if exp.is_some() || ft.digits.len() >= 17 || *sign % 3 != 0 {
            st.nontrivial(fnv(ft.text.as_bytes()));
        }
        st.class(if exp.is_some() { "float:with-exponent" } else { "float:plain" });
        if ft.digits.len() >= 17 {
            st.class("float:>=17-significant-digits");
        }
        if st.want_sample() && ft.text.len() > 16 {
            st.sample(json!({"float_text": ft.text}));
        }
        match check_float_text(&ft, st) {
            None => Outcome::Pass,
            Some(f) => Outcome::Fail(f),
        }
    });
    // halfway cases: exact midpoints between adjacent doubles written out in decimal are too long in general;
    // use the classic hard cases instead (shortest decimals near midpoints come from the generator above)
    {
        let mut st = Stats::new();
        for t in ["9007199254740993", "9007199254740992.5", "9007199254740993.0000000000000000001", "2.2250738585072011e-308", "2.2250738585072012e-308", "4.9406564584124654e-324", "2.4703282292062327e-324", "2.4703282292062328e-324", "1.7976931348623157e308", "1.7976931348623158e308", "0.1", "0.3", "8.5e-324", "1e23", "8.41e21", "2.0000000000000004e0", "1.00000000000000011102230246251565404236316680908203125", "1.00000000000000011102230246251565404236316680908203124", "1.00000000000000011102230246251565404236316680908203126"] {
            let (mant, e) = match t.split_once('e') {
                Some((m, e)) => (m, e.parse::<i32>().unwrap()),
                None => (t, 0),
            };
            let (ip, fp) = mant.split_once('.').unwrap_or((mant, ""));
            let ft = FloatText { text: t.to_string(), neg: false, digits: format!("{ip}{fp}"), e10: e - fp.len() as i32 };
            st.nontrivial_constructed();
            if let Some(f) = check_float_text(&ft, &mut st) {
                ctx.report(f);
            }
        }
        ctx.merge(st);
    }

    // ---- format / parse through slots
    let si = SpecIndex::get();
    // one slot type per distinct character-data spec (per version for enums)
    let mut slots: Vec<(usize, usize, &'static CharacterDataSpec)> = vec![];
    {
        let mut seen: HashMap<(usize, usize), ()> = HashMap::new();
        for vi in 0..NVER {
            for t in crate::c01::reachable(vi) {
                let et: ElementType = si.types[t].etype;
                if et.content_mode() != autosar_data_specification::ContentMode::Characters {
                    continue;
                }
                if let Some(spec) = et.chardata_spec() {
                    let per_version = matches!(spec, CharacterDataSpec::Enum { .. });
                    let key = (spec_key(spec), if per_version { vi } else { usize::MAX });
                    let latest_only = !per_version && vi != NVER - 1;
                    if latest_only || seen.contains_key(&key) {
                        continue;
                    }
                    seen.insert(key, ());
                    slots.push((vi, t, spec));
                }
            }
        }
    }
    // enum items: exhaustive over (enumeration spec, version, item) -- sampled in quick
    let stride = ctx.tier.pick(2usize, 1usize);
    let enum_slots: Vec<&(usize, usize, &'static CharacterDataSpec)> = slots.iter().filter(|s| matches!(s.2, CharacterDataSpec::Enum { .. })).collect();
    par_items(ctx, &enum_slots, |(vi, t, spec), st| {
        if let CharacterDataSpec::Enum { items } = spec {
            for (k, (item, mask)) in items.iter().enumerate() {
                if mask & (1 << vi) == 0 || (k + t) % stride != 0 {
                    continue;
                }
                st.nontrivial_constructed();
                st.class("slot:enum");
                if let Err(f) = roundtrip_value(*vi, *t, &AVal::Enum(*item), st) {
                    ctx.report(f);
                }
            }
        }
    });
    // attribute slots with enumeration values: the text -> value path of the API (set_attribute_string = CharacterData::parse)
    // and back through serialize + load; one slot per distinct (enumeration, version)
    {
        let mut attr_slots: Vec<(usize, usize, AttributeName, &'static CharacterDataSpec)> = vec![];
        let mut seen: HashMap<(usize, usize), ()> = HashMap::new();
        for vi in 0..NVER {
            for t in crate::c01::reachable(vi) {
                for a in &si.types[t].attrs {
                    if a.mask & (1 << vi) == 0 || !matches!(a.spec, CharacterDataSpec::Enum { .. }) {
                        continue;
                    }
                    let key = (spec_key(a.spec), vi);
                    if seen.contains_key(&key) {
                        continue;
                    }
                    seen.insert(key, ());
                    attr_slots.push((vi, t, a.name, a.spec));
                }
            }
        }
        par_items(ctx, &attr_slots, |(vi, t, aname, spec), st| {
            let CharacterDataSpec::Enum { items } = spec else { return };
            let version = versions()[*vi];
            let model = AutosarModel::new();
            let Ok(file) = model.create_file("f.arxml", version) else { return };
            let mut counter = 0;
            let Some(elem) = api_witness(&model, *vi, *t, &mut counter) else {
                st.class("attr-slot-not-buildable");
                return;
            };
            for (k, (item, mask)) in items.iter().enumerate() {
                if mask & (1 << vi) == 0 || (k + t) % stride != 0 {
                    continue;
                }
                st.eval();
                st.nontrivial_constructed();
                st.class("slot:attribute-enum");
                let case = json!({"kind": "attr-slot", "vi": vi, "tid": t, "attribute": aname.to_string(), "item": item.to_str()});
                if let Err(e) = elem.set_attribute_string(*aname, item.to_str()) {
                    ctx.report(Failure::new("attr-slot:text-of-valid-item-rejected", format!("{}.set_attribute_string({}, {:?}) in {:?} fails ({e}) although the item is listed for this attribute in this version", elem.element_name(), aname, item.to_str(), version), case));
                    continue;
                }
                if elem.attribute_value(*aname) != Some(CharacterData::Enum(*item)) {
                    ctx.report(Failure::new("attr-slot:parsed-to-another-value", format!("{}.set_attribute_string({}, {:?}) stored {:?}", elem.element_name(), aname, item.to_str(), elem.attribute_value(*aname)), case));
                    continue;
                }
                // through the file
                if k % 4 == 0 {
                    if let Ok(text) = file.serialize() {
                        let m2 = AutosarModel::new();
                        if m2.load_buffer(text.as_bytes(), "f.arxml", false).is_ok() {
                            let xp = elem.xml_path();
                            let got = m2.elements_dfs().map(|(_, e)| e).find(|e| e.xml_path() == xp && e.element_name() == elem.element_name()).and_then(|e| e.attribute_value(*aname));
                            if got != Some(CharacterData::Enum(*item)) {
                                ctx.report(Failure::new("attr-slot-roundtrip:enum", format!("{} {}={:?}: written and loaded back as {:?}", elem.element_name(), aname, item.to_str(), got), case));
                            }
                        }
                    }
                }
            }
        });
        let mut st = Stats::new();
        st.class_n("slot-types:attribute-enum(version x enumeration)", attr_slots.len() as u64);
        ctx.merge(st);
    }
    let other: Vec<(usize, usize, &'static CharacterDataSpec)> = slots.iter().filter(|s| !matches!(s.2, CharacterDataSpec::Enum { .. })).cloned().collect();
    let string_slots: Vec<(usize, usize, bool)> = other.iter().filter_map(|(vi, t, s)| if let CharacterDataSpec::String { preserve_whitespace, max_length: None } = s { Some((*vi, *t, *preserve_whitespace)) } else { None }).collect();
    let uint_slots: Vec<(usize, usize)> = other.iter().filter(|s| matches!(s.2, CharacterDataSpec::UnsignedInteger)).map(|s| (s.0, s.1)).collect();
    let float_slots: Vec<(usize, usize)> = other.iter().filter(|s| matches!(s.2, CharacterDataSpec::Float)).map(|s| (s.0, s.1)).collect();
    {
        let mut st = Stats::new();
        st.class_n("slot-types:string", string_slots.len() as u64);
        st.class_n("slot-types:uint", uint_slots.len() as u64);
        st.class_n("slot-types:float", float_slots.len() as u64);
        st.class_n("slot-types:enum(version x enumeration)", enum_slots.len() as u64);
        ctx.merge(st);
    }
    let cases = ctx.tier.pick(300_000u64, 3_000_000u64);
    let strat = (0u8..3, any::<u32>(), proptest::collection::vec(any::<u32>(), 0..16));
    run_prop(ctx, "slots", cases, strat, |(kind, sel, tape), st| {
        let mut t = Tape::new(tape);
        let mut g = Gen::new(versions()[NVER - 1], &mut t, GenOpts::default());
        let pick = |n: usize| ((*sel as u64 * n as u64) >> 32) as usize;
        let (vi, tid, v) = match kind {
            0 if !string_slots.is_empty() => {
                let (vi, tid, preserve) = string_slots[pick(string_slots.len())];
                let mut sv = g.gen_string(preserve, None);
                // white space at the ends of a value set through the API must survive serialize + load as well
                // (leading, trailing, or both with runs of different lengths)
                let k = tape.first().copied().unwrap_or(0) % 16;
                let ws = [' ', '\t', '\n'];
                if k < 3 || (6..12).contains(&k) {
                    for _ in 0..(1 + k % 2) {
                        sv.insert(0, ws[k as usize % 3]);
                    }
                }
                if (3..12).contains(&k) {
                    for _ in 0..(1 + (k / 2) % 2) {
                        sv.push(ws[(k as usize + 1) % 3]);
                    }
                }
                (vi, tid, AVal::Str(sv))
            }
            1 if !uint_slots.is_empty() => {
                let (vi, tid) = uint_slots[pick(uint_slots.len())];
                (vi, tid, AVal::UInt(g.gen_uint()))
            }
            _ if !float_slots.is_empty() => {
                let (vi, tid) = float_slots[pick(float_slots.len())];
                (vi, tid, AVal::Float(g.gen_float()))
            }
            _ => return Outcome::Discard,
        };
        st.nontrivial(mix(fnv(format!("{:?}", v).as_bytes()), tid as u64));
        st.class(match kind {
            0 => "slot:string",
            1 => "slot:uint",
            _ => "slot:float",
        });
        if st.want_sample() {
            st.sample(json!({"slot_type": format!("{:?}", si.types[tid].etype), "value": v.to_json()}));
        }
        match roundtrip_value(vi, tid, &v, st) {
            Ok(()) => Outcome::Pass,
            Err(f) => Outcome::Fail(f),
        }
    });
}

pub fn replay(ctx: &Ctx, case: &Value) {
    let mut st = Stats::new();
    match case["kind"].as_str() {
        Some("int") => {
            // re-derive the exact value from the text itself
            let text = case["text"].as_str().unwrap_or("0").to_string();
            let (neg, body) = if let Some(b) = text.strip_prefix('-') { (true, b.to_string()) } else if let Some(b) = text.strip_prefix('+') { (false, b.to_string()) } else { (false, text.clone()) };
            let (radix, digits) = if let Some(d) = body.strip_prefix("0x").or(body.strip_prefix("0X")) { (16, d.to_string()) } else if let Some(d) = body.strip_prefix("0b").or(body.strip_prefix("0B")) { (2, d.to_string()) } else if body.len() > 1 && body.starts_with('0') { (8, body[1..].to_string()) } else { (10, body.clone()) };
            let (mag, big) = mag_of(&digits, radix);
            let it = IntText { text, neg, mag, big };
            for f in check_int(&it, &mut st) {
                ctx.report(f);
            }
            if let Some(f) = check_int_as_float(&it, &mut st) {
                ctx.report(f);
            }
        }
        Some("float") => {
            let t = case["text"].as_str().unwrap_or("0");
            let (neg, body) = if let Some(b) = t.strip_prefix('-') { (true, b) } else if let Some(b) = t.strip_prefix('+') { (false, b) } else { (false, t) };
            let (mant, e) = match body.split_once(['e', 'E']) {
                Some((m, e)) => (m, e.parse::<i32>().unwrap_or(0)),
                None => (body, 0),
            };
            let (ip, fp) = mant.split_once('.').unwrap_or((mant, ""));
            let ft = FloatText { text: t.to_string(), neg, digits: format!("{ip}{fp}"), e10: e - fp.len() as i32 };
            if let Some(f) = check_float_text(&ft, &mut st) {
                ctx.report(f);
            }
        }
        _ => run(ctx),
    }
    ctx.merge(st);
}
