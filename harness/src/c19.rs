//! C19 — pattern validators accept exactly the language of their published regex.
use crate::engine::*;
use crate::rx::*;
use crate::spec::*;
use proptest::prelude::*;
use serde_json::{json, Value};

pub struct Pat {
    pub idx: usize,
    pub check_fn: fn(&[u8]) -> bool,
    pub regex: &'static str,
    /// DFA under the three readings of '.' (a single entry when the regex has no '.')
    pub dfas: Vec<Dfa>,
}

pub fn patterns() -> Vec<Pat> {
    let si = SpecIndex::get();
    let mut out: Vec<Pat> = vec![];
    for (f, r, _) in &si.patterns {
        if out.iter().any(|p| p.check_fn as usize == *f as usize && p.regex == *r) {
            continue;
        }
        let d0 = Dfa::compile(r, DotMode::All).unwrap_or_else(|e| panic!("own regex engine cannot compile {r:?}: {e}"));
        let dfas = if d0.has_dot {
            vec![d0, Dfa::compile(r, DotMode::NoNl).unwrap(), Dfa::compile(r, DotMode::NoNlCr).unwrap()]
        } else {
            vec![d0]
        };
        out.push(Pat { idx: out.len(), check_fn: *f, regex: r, dfas });
    }
    out
}

#[derive(PartialEq, Eq, Clone, Copy, Debug)]
pub enum Verdict {
    Agree(bool),
    DontCare,
    Fail { expected: bool },
}

pub fn judge(p: &Pat, s: &[u8]) -> Verdict {
    let a = p.dfas[0].accepts(s);
    for d in &p.dfas[1..] {
        if d.accepts(s) != a {
            return Verdict::DontCare;
        }
    }
    if !s.is_ascii() && std::str::from_utf8(s).is_err() && p.dfas[0].has_dot {
        // '.' is defined on characters; only valid UTF-8 is judged where '.' is involved
        return Verdict::DontCare;
    }
    let got = (p.check_fn)(s);
    if got == a {
        Verdict::Agree(a)
    } else {
        Verdict::Fail { expected: a }
    }
}

fn failure(p: &Pat, s: &[u8], expected: bool) -> Failure {
    let sig = classify(p, s, expected);
    Failure::new(
        sig,
        format!(
            "validator for regex {:?} {} {:?} ({} bytes), but the regex {} it",
            p.regex,
            if expected { "rejects" } else { "accepts" },
            String::from_utf8_lossy(&s[..s.len().min(300)]),
            s.len(),
            if expected { "matches" } else { "does not match" }
        ),
        json!({"regex": p.regex, "input": bytes_json(s)}),
    )
}

/// Open known findings of C19 are keyed by the language the validator actually implements:
/// (published regex, implemented regex, signature). A disagreement counts as that finding only if
/// the validator accepts a non-member that the *implemented* regex matches.
pub const KNOWN_IMPL: [(&str, &str, &str); 3] = [
    (
        r"%[ \-+#]?[0-9]*(\.[0-9]+)?[bBdiouxXfeEgGcs]",
        r"%[ \-+#]?([0-9]+[ \-+#])*[0-9]*(\.[0-9]+)?[bBdiouxXfeEgGcs]",
        "printf-format:flag-accepted-after-width-digits",
    ),
    (
        r"[a-zA-Z_][a-zA-Z0-9_]*(\[([a-zA-Z_][a-zA-Z0-9_]*|[0-9]+)\])*(\.[a-zA-Z_][a-zA-Z0-9_]*(\[([a-zA-Z_][a-zA-Z0-9_]*|[0-9]+)\])*)*",
        r"[a-zA-Z_][a-zA-Z0-9_]*(\[([a-zA-Z_][a-zA-Z0-9_]*|[0-9]+)\][a-zA-Z0-9_]*)*(\.[a-zA-Z_][a-zA-Z0-9_]*(\[([a-zA-Z_][a-zA-Z0-9_]*|[0-9]+)\][a-zA-Z0-9_]*)*)*",
        "indexed-identifier:name-characters-accepted-after-closing-bracket",
    ),
    (
        r"(0|[1-9]\d*)\.(0|[1-9]\d*)\.(0|[1-9]\d*)(-((0|[1-9]\d*|\d*[a-zA-Z-][0-9a-zA-Z-]*)(\.(0|[1-9]\d*|\d*[a-zA-Z-][0-9a-zA-Z-]*))*))?(\+([0-9a-zA-Z-]+(\.[0-9a-zA-Z-]+)*))?",
        r"(0|[1-9]\d*)\.(0|[1-9]\d*)\.(0|[1-9]\d*)(-([0-9a-zA-Z-]+(\.[0-9a-zA-Z-]+)*))?(\+([0-9a-zA-Z-]+(\.[0-9a-zA-Z-]+)*))?",
        "semver:numeric-prerelease-identifier-with-leading-zero-accepted",
    ),
];

fn known_impl_dfas() -> &'static Vec<(&'static str, Dfa, &'static str)> {
    static K: std::sync::OnceLock<Vec<(&'static str, Dfa, &'static str)>> = std::sync::OnceLock::new();
    K.get_or_init(|| KNOWN_IMPL.iter().map(|(r, imp, sig)| (*r, Dfa::compile(imp, DotMode::All).expect("implemented-language regex"), *sig)).collect())
}

/// structural signature of a disagreement
fn classify(p: &Pat, s: &[u8], expected: bool) -> String {
    if !expected {
        for (r, d, sig) in known_impl_dfas() {
            if *r == p.regex && d.accepts(s) {
                return sig.to_string();
            }
        }
    }
    if !expected && p.regex.contains("{0,127}") {
        // accepted although not matching: is the only reason an over-long path segment?
        let mut t: Vec<u8> = vec![];
        let mut over = false;
        for (i, seg) in s.split(|c| *c == b'/').enumerate() {
            if i > 0 {
                t.push(b'/');
            }
            if seg.len() > 128 {
                over = true;
                t.extend_from_slice(&seg[..128]);
            } else {
                t.extend_from_slice(seg);
            }
        }
        if over && p.dfas[0].accepts(&t) {
            return "path-segment-longer-than-128-accepted".to_string();
        }
    }
    format!("regex#{}:{}", fnv(p.regex.as_bytes()) % 10000, if expected { "member-rejected" } else { "nonmember-accepted" })
}

fn check(ctx: &Ctx, p: &Pat, s: &[u8], st: &mut Stats) {
    st.eval();
    match judge(p, s) {
        Verdict::Agree(_) => {}
        Verdict::DontCare => st.dontcare("dot-reading-or-utf8"),
        Verdict::Fail { expected } => {
            if std::env::var("VERIF_DUMP").is_ok() {
                eprintln!("DUMP #{} exp={} {:?}", p.idx, expected, String::from_utf8_lossy(s));
            }
            ctx.report(failure(p, s, expected));
        }
    }
}

fn alphabet(d: &Dfa) -> Vec<u8> {
    let mut a: Vec<u8> = vec![];
    for cb in &d.class_bytes {
        let rep = cb.iter().copied().find(|b| b.is_ascii_alphanumeric()).or_else(|| cb.iter().copied().find(|b| (0x21..0x7f).contains(b))).unwrap_or(cb[0]);
        a.push(rep);
    }
    for b in [0x00u8, b'\n', b'\r', 0x7f, 0x80, 0xff, b' ', b'@', b'[', b'`', b'{', b'/', b':'] {
        if !a.contains(&b) {
            a.push(b);
        }
    }
    a
}

/// bytes at the edges of every contiguous run of every class
fn boundary_bytes(d: &Dfa) -> Vec<u8> {
    let mut out = vec![];
    for b in 0..=255u8 {
        let c = d.class_of[b as usize];
        let first = b == 0 || d.class_of[b as usize - 1] != c;
        let last = b == 255 || d.class_of[b as usize + 1] != c;
        if first || last {
            out.push(b);
        }
    }
    out
}

/// exhaustive enumeration of strings up to length `maxlen` over `alpha`; a string whose prefix is
/// already dead in the DFA is extended by at most `dead_tail` further symbols
fn enumerate(ctx: &Ctx, p: &Pat, alpha: &[u8], first: u8, maxlen: usize, dead_tail: usize, st: &mut Stats) {
    let d = &p.dfas[0];
    let mut buf: Vec<u8> = vec![first];
    // stack of (next symbol index)
    let mut idx: Vec<usize> = vec![0];
    let mut states: Vec<u32> = vec![d.step(d.start, first)];
    let mut dead: Vec<usize> = vec![if d.is_dead(states[0]) { 1 } else { 0 }];
    let visit = |buf: &[u8], dead_now: usize, st: &mut Stats| {
        check(ctx, p, buf, st);
        if dead_now <= 1 {
            st.nontrivial_constructed();
        }
    };
    visit(&buf, dead[0], st);
    loop {
        let depth = buf.len();
        let i = *idx.last().unwrap();
        let can_extend = depth < maxlen && dead[depth - 1] <= dead_tail && i < alpha.len();
        if can_extend {
            *idx.last_mut().unwrap() += 1;
            let b = alpha[i];
            let ns = d.step(states[depth - 1], b);
            let nd = if d.is_dead(ns) { dead[depth - 1] + 1 } else { 0 };
            buf.push(b);
            states.push(ns);
            dead.push(nd);
            idx.push(0);
            visit(&buf, nd, st);
        } else {
            buf.pop();
            states.pop();
            dead.pop();
            idx.pop();
            if buf.is_empty() {
                break;
            }
        }
    }
}

pub fn run(ctx: &Ctx) {
    ctx.set_rule(
        "Per (validator, published regex) pair: (a) all strings up to a length bound over one representative byte per input class of \
         the regex's minimal DFA plus boundary bytes (a prefix that is already dead is extended by a bounded tail); (b) W-method \
         conformance suite access-string . byte . Sigma^<=k . characterising-set with the byte ranging over all 256 values; \
         (c) generated members (DFA walks, up to 400 bytes) and all their one-edit neighbours. Oracle: own minimal DFA compiled from the \
         published regex text ('.' under three readings; verdict only where they agree). Non-trivial: the DFA is not in its dead state \
         after the first byte, or dies at the very last byte; enumerated strings are distinct by construction, generated ones by hash.",
    );
    ctx.assume("the regex text in CharacterDataSpec::Pattern is the published pattern; '\\d' is ASCII; non-UTF-8 input is judged only for patterns without '.'");
    let pats = patterns();
    {
        let mut st = Stats::new();
        st.class_n("patterns", pats.len() as u64);
        ctx.merge(st);
    }
    if pats.len() < 20 {
        ctx.harness_error(format!("only {} patterns found through the specification walk", pats.len()));
    }

    // ---- self check of the oracle against the regex crate (harness error if they disagree)
    {
        let items: Vec<usize> = (0..pats.len()).collect();
        par_items(ctx, &items, |pi, st| {
            let p = &pats[*pi];
            let re = match regex::bytes::Regex::new(&format!("(?s-u)^(?:{})$", p.regex)) {
                Ok(r) => r,
                Err(_) => {
                    st.class("selfcheck-regex-crate-rejects-pattern");
                    return;
                }
            };
            let d = &p.dfas[0];
            let alpha = alphabet(d);
            let n = ctx.tier.pick(20_000, 100_000);
            let mut sm = SplitMix(mix(ctx.seed_for("selfcheck"), *pi as u64));
            for k in 0..n {
                // half members/near-members, half random over the alphabet
                let s: Vec<u8> = if k % 2 == 0 {
                    let tape: Vec<u32> = (0..(sm.below(40))).map(|_| sm.next() as u32).collect();
                    let mut m = d.member(&tape, &[]);
                    if k % 4 == 0 && !m.is_empty() {
                        let i = sm.below(m.len());
                        m[i] = alpha[sm.below(alpha.len())];
                    }
                    m
                } else {
                    (0..sm.below(10)).map(|_| alpha[sm.below(alpha.len())]).collect()
                };
                if re.is_match(&s) != d.accepts(&s) {
                    ctx.harness_error(format!("own DFA and regex crate disagree on pattern {:?} input {:?}", p.regex, String::from_utf8_lossy(&s)));
                    return;
                }
                st.class("selfcheck-agree");
            }
        });
    }

    // ---- (a) bounded exhaustive enumeration
    let (maxlen, dead_tail) = ctx.tier.pick((5usize, 1usize), (7usize, 2usize));
    let mut work: Vec<(usize, u8)> = vec![];
    for p in &pats {
        for b in alphabet(&p.dfas[0]) {
            work.push((p.idx, b));
        }
    }
    par_items(ctx, &work, |(pi, first), st| {
        let p = &pats[*pi];
        let alpha = alphabet(&p.dfas[0]);
        enumerate(ctx, p, &alpha, *first, maxlen, dead_tail, st);
    });
    {
        let mut st = Stats::new();
        for p in &pats {
            check(ctx, p, b"", &mut st);
            st.nontrivial_constructed();
            if st.want_sample() {
                st.sample(json!({"regex": p.regex, "minimal_dfa_states": p.dfas[0].nstates(), "byte_classes": p.dfas[0].ncls,
                    "enumeration_alphabet": String::from_utf8_lossy(&alphabet(&p.dfas[0])), "max_len": maxlen}));
            }
        }
        ctx.merge(st);
    }
    ctx.exhaustive_part(&format!("all strings up to length {maxlen} over the per-regex reduced alphabet (dead prefixes extended by <= {dead_tail})"));

    // ---- (b) W-method: P . byte . Sigma^<=k . W
    let extra = ctx.tier.pick(0usize, 1usize);
    let mut wwork: Vec<(usize, usize)> = vec![];
    let mut covers = vec![];
    let mut wsets = vec![];
    for p in &pats {
        let d = &p.dfas[0];
        let cover = d.state_cover();
        let w = d.characterising_set();
        for s in 0..cover.len() {
            wwork.push((p.idx, s));
        }
        covers.push(cover);
        wsets.push(w);
    }
    par_items(ctx, &wwork, |(pi, s), st| {
        let p = &pats[*pi];
        let d = &p.dfas[0];
        let access = d.render_classes(&covers[*pi][*s], *s);
        let w: Vec<Vec<u8>> = wsets[*pi].iter().enumerate().map(|(i, x)| d.render_classes(x, i + *s)).collect();
        let alpha = alphabet(d);
        let bb = boundary_bytes(d);
        // in quick mode for big automata: the 256 bytes are tried with a reduced W (3 shortest), boundary bytes with all of W
        let big = d.nstates() * w.len() > 4000 && ctx.tier == Tier::Quick;
        let mut buf = Vec::with_capacity(access.len() + 8);
        for b in 0..=255u8 {
            let is_boundary = bb.contains(&b);
            for (wi, suffix) in w.iter().enumerate() {
                if big && !is_boundary && wi >= 3 {
                    break;
                }
                buf.clear();
                buf.extend_from_slice(&access);
                buf.push(b);
                buf.extend_from_slice(suffix);
                check(ctx, p, &buf, st);
                st.nontrivial_constructed();
                if extra >= 1 {
                    for m in &alpha {
                        buf.clear();
                        buf.extend_from_slice(&access);
                        buf.push(b);
                        buf.push(*m);
                        buf.extend_from_slice(suffix);
                        check(ctx, p, &buf, st);
                        st.nontrivial_constructed();
                    }
                }
            }
        }
        // the access string itself with every suffix (state cover . W)
        for suffix in &w {
            buf.clear();
            buf.extend_from_slice(&access);
            buf.extend_from_slice(suffix);
            check(ctx, p, &buf, st);
        }
        if *s == covers[*pi].len() - 1 && st.want_sample() {
            st.sample(json!({"regex": p.regex, "w_method": {"access_string_of_last_state": String::from_utf8_lossy(&access), "characterising_set_size": w.len(),
                "longest_suffix": w.iter().map(|x| x.len()).max()}}));
        }
    });

    // ---- (c) random members and their one-edit neighbours
    let cases = ctx.tier.pick(600_000u64, 6_000_000u64);
    let npat = pats.len();
    let strat = (0..npat, proptest::collection::vec(any::<u32>(), 0..400), any::<u32>());
    run_prop(ctx, "members", cases, strat, |(pi, tape, r), st| {
        let p = &pats[*pi];
        let d = &p.dfas[0];
        // long tapes only now and then: shorten most
        let keep = match r % 8 {
            0 => tape.len(),
            1..=3 => tape.len().min(40),
            _ => tape.len().min(12),
        };
        let m = d.member(&tape[..keep], &[]);
        let mut fails: Vec<Failure> = vec![];
        let mut one = |s: &[u8], st: &mut Stats| {
            st.eval();
            match judge(p, s) {
                Verdict::Agree(_) => {}
                Verdict::DontCare => st.dontcare("dot-reading-or-utf8"),
                Verdict::Fail { expected } => fails.push(failure(p, s, expected)),
            }
        };
        one(&m, st);
        st.nontrivial(mix(fnv(&m), *pi as u64));
        st.class(match m.len() {
            0..=8 => "member-len<=8",
            9..=64 => "member-len<=64",
            65..=128 => "member-len<=128",
            _ => "member-len>128",
        });
        if st.want_sample() && m.len() > 12 {
            st.sample(json!({"regex": p.regex, "generated_member": String::from_utf8_lossy(&m)}));
        }
        // neighbours: at a few positions chosen by r (all positions for short members)
        let alpha = alphabet(d);
        let positions: Vec<usize> = if m.len() <= 24 { (0..=m.len()).collect() } else { (0..12).map(|k| ((r.wrapping_mul(2654435761).wrapping_add(k * 40503)) as usize) % (m.len() + 1)).chain([0, m.len(), m.len() - 1]).collect() };
        let mut buf = Vec::with_capacity(m.len() + 1);
        for pos in positions {
            if pos < m.len() {
                // deletion
                buf.clear();
                buf.extend_from_slice(&m[..pos]);
                buf.extend_from_slice(&m[pos + 1..]);
                one(&buf, st);
                // replacement
                for a in &alpha {
                    if *a != m[pos] {
                        buf.clear();
                        buf.extend_from_slice(&m);
                        buf[pos] = *a;
                        one(&buf, st);
                    }
                }
            }
            // insertion
            for a in &alpha {
                buf.clear();
                buf.extend_from_slice(&m[..pos]);
                buf.push(*a);
                buf.extend_from_slice(&m[pos..]);
                one(&buf, st);
            }
        }
        match fails.into_iter().next() {
            None => Outcome::Pass,
            Some(f) => Outcome::Fail(f),
        }
    });
}

pub fn replay(ctx: &Ctx, case: &Value) {
    let pats = patterns();
    let s = bytes_from_json(&case["input"]);
    let mut st = Stats::new();
    for p in &pats {
        if Some(p.regex) == case["regex"].as_str() {
            check(ctx, p, &s, &mut st);
        }
    }
    ctx.merge(st);
}
