//! C12 — single-threaded use never panics, hangs or reports a spurious lock conflict.
use crate::audit::*;
use crate::engine::*;
use crate::hist::*;
use crate::histprops::HistCase;
use crate::spec::*;
use autosar_data::*;
use autosar_data_specification::*;
use proptest::prelude::*;
use serde_json::{json, Value};

fn fail(sig: String, msg: String, w: &World, case: &HistCase) -> Failure {
    let log = w.log.iter().enumerate().map(|(i, l)| format!("  {i:2}: {l}")).collect::<Vec<_>>().join("\n");
    Failure::new(sig, format!("{msg}\n--- history (fixture {}) ---\n{log}", case.fixture), case.to_json())
}

/// read-only and miscellaneous calls on a few handles (live, stale, other model); none may panic or block
fn misc_calls(w: &mut World, salt: u32) {
    let n = w.elems.len();
    if n == 0 {
        return;
    }
    for k in 0..4u32 {
        let a = w.elems[(mix(salt as u64, k as u64) as usize) % n].clone();
        let b = w.elems[(mix(salt as u64, 100 + k as u64) as usize) % n].clone();
        let _ = format!("{:?}", a);
        let _ = a.cmp(&b);
        let _ = a == b;
        let _ = a.xml_path();
        let _ = a.path();
        let _ = a.item_name();
        let _ = a.serialize();
        let _ = a.list_valid_sub_elements();
        let _ = a.min_version();
        let _ = a.named_parent();
        let _ = a.content_type();
        let _ = a.comment();
        let _ = a.character_data();
        let _ = a.attributes().count();
        let _ = a.get_reference_target();
        let _ = a.file_membership();
        let _ = a.is_identifiable();
        let _ = a.position();
        let _ = a.elements_dfs().take(50).count();
        let _ = a.sub_elements().count();
        let _ = a.get_sub_element(b.element_name());
        for v in [AutosarVersion::Autosar_4_0_1, AutosarVersion::Autosar_00050, AutosarVersion::LATEST] {
            let _ = a.calc_element_insert_range(b.element_name(), v);
        }
        // iterate while editing
        let mut it = a.sub_elements();
        let first = it.next();
        if let Some(f) = first {
            let _ = a.remove_sub_element(f);
        }
        let _ = it.next();
        let _ = it.next();
    }
    for m in w.models.clone() {
        let _ = format!("{:?}", m);
        let _ = m.check_references().len();
        let _ = m.identifiable_elements().count();
        let _ = m.elements_dfs().take(100).count();
        let _ = m.get_element_by_path("/a/b");
        let _ = m.get_references_to("/a/b");
        let _ = m.serialize_files();
        for f in m.files() {
            let _ = format!("{:?}", f);
            let _ = f.check_version_compatibility(versions()[(salt as usize) % NVER]);
            let _ = f.elements_dfs().take(100).count();
            let _ = f.serialize();
            let _ = f.model();
        }
    }
    for fh in &w.files {
        let _ = fh.file.serialize();
        let _ = fh.file.filename();
        let _ = fh.file.version();
        let _ = fh.file.check_version_compatibility(AutosarVersion::Autosar_4_0_1);
        let _ = fh.file.elements_dfs().take(20).count();
    }
}

pub fn run_history(case: &HistCase, st: &mut Stats, known_open: &dyn Fn(&str) -> bool, on_known: &dyn Fn(Failure)) -> Result<(), Failure> {
    let audit = Audit::install();
    let mut w = World::fixture(case.fixture);
    w.audit_mode = true;
    st.eval();
    let mut nontrivial = case.fixture % 4 >= 2;
    let mut fp = case.fixture as u64;
    for (step, o) in case.ops.iter().enumerate() {
        w.pending = None;
        let r = no_panic(|| w.apply(o));
        let conflicts = audit.take_conflicts();
        let (desc, rel, code) = w.pending.clone().unwrap_or_default();
        let opname = op::NAMES.get(code as usize).copied().unwrap_or("?").trim_end_matches("_at");
        match r {
            Err(pmsg) => {
                audit.reset_held();
                let f = if pmsg.contains(DEADLOCK_PANIC) {
                    let c = conflicts.last();
                    fail(
                        format!("self-deadlock:{opname}:{rel}"),
                        format!("step {step}: {desc} would block forever: it requests a {:?} lock on {} at {} while the same thread holds it (taken at {:?})", c.map(|c| c.mode), c.map(|c| c.class.clone()).unwrap_or_default(), c.map(|c| c.request_site.clone()).unwrap_or_default(), c.map(|c| c.held_sites.clone()).unwrap_or_default()),
                        &w,
                        case,
                    )
                } else {
                    fail(format!("panic:{opname}:{}", panic_site(&pmsg)), format!("step {step}: {desc} panicked: {pmsg}"), &w, case)
                };
                // the state may be torn: the history ends here
                return Err(f);
            }
            Ok(res) => {
                if res.skipped {
                    continue;
                }
                fp = mix(fp, fnv(res.desc.as_bytes()));
                if matches!(res.rel, "same" | "other-stale" | "this-stale" | "both-stale" | "other-model" | "other-is-descendant" | "other-is-ancestor") {
                    nontrivial = true;
                    st.class(&format!("aliasing:{}", res.rel));
                }
                if res.err.as_deref() == Some("ParentElementLocked") {
                    let c = conflicts.last();
                    let f = fail(
                        format!("spurious-lock-error:{opname}:{}", res.rel),
                        format!("step {step}: {} returned ParentElementLocked although no other operation is in progress (timed {:?} request on {} at {} conflicts with the lock taken at {:?})", res.desc, c.map(|c| c.mode), c.map(|c| c.class.clone()).unwrap_or_default(), c.map(|c| c.request_site.clone()).unwrap_or_default(), c.map(|c| c.held_sites.clone()).unwrap_or_default()),
                        &w,
                        case,
                    );
                    if !known_open(&f.signature) {
                        return Err(f);
                    }
                    st.class("known:spurious-lock-error");
                    on_known(f);
                    // the call had no effect: continue
                }
            }
        }
        w.rescan();
        if step % 4 == 3 {
            let r = no_panic(|| misc_calls(&mut w, step as u32 ^ o.a));
            let conflicts = audit.take_conflicts();
            if let Err(pmsg) = r {
                audit.reset_held();
                if pmsg.contains(DEADLOCK_PANIC) {
                    let c = conflicts.last();
                    return Err(fail(format!("self-deadlock:misc:{}", c.map(|c| c.request_site.clone()).unwrap_or_default()), format!("after step {step}: a read-only call would block forever ({:?})", c), &w, case));
                }
                return Err(fail(format!("panic:misc:{}", panic_site(&pmsg)), format!("after step {step}: a read-only / iterator call panicked: {pmsg}"), &w, case));
            }
            w.rescan();
        }
    }
    if audit.held() != 0 {
        return Err(fail("lock-leak".into(), format!("{} locks still held at the end of the history", audit.held()), &w, case));
    }
    if nontrivial {
        st.nontrivial(fp);
    }
    if st.want_sample() && nontrivial && w.log.len() > 3 {
        st.sample(json!({"fixture": case.fixture, "history": w.log.clone()}));
    }
    Ok(())
}

/// specification API with arbitrary arguments
fn spec_calls(ctx: &Ctx) {
    let si = SpecIndex::get();
    let cases = ctx.tier.pick(300_000u64, 3_000_000u64);
    let strat = (any::<u32>(), proptest::collection::vec(0usize..40, 0..6), proptest::collection::vec(0usize..40, 0..6), any::<u32>(), any::<u32>());
    run_prop(ctx, "spec-calls", cases, strat, |(tsel, idx1, idx2, nsel, vmask), st| {
        st.eval();
        let t = si.types[pick(si.types.len(), *tsel)].etype;
        let name = si.element_names[pick(si.element_names.len(), *nsel)];
        let r = no_panic(|| {
            let _ = t.get_sub_element_version_mask(idx1);
            let _ = t.get_sub_element_multiplicity(idx1);
            if !idx1.is_empty() {
                // documented input: an index list "as returned by find_sub_element"; arbitrary lists are what a defensive API gets
                let _ = t.find_common_group(idx1, idx2);
            }
            let _ = t.find_sub_element(name, *vmask);
            let _ = t.find_attribute_spec(si.attribute_names[pick(si.attribute_names.len(), *nsel)]);
            let _ = expand_version_mask(*vmask);
            let _ = AutosarVersion::from_val(*vmask);
            let _ = t.is_named_in_version(versions()[(*nsel as usize) % NVER]);
            let _ = t.splittable_in(versions()[(*nsel as usize) % NVER]);
            let _ = t.reference_dest_value(&si.types[pick(si.types.len(), *nsel)].etype);
            let _ = format!("{:?} {:?}", t, t.chardata_spec());
        });
        if !idx1.is_empty() {
            st.nontrivial(mix(*tsel as u64, fnv(format!("{:?}", idx1).as_bytes())));
        }
        match r {
            Ok(()) => {
                // get_sub_element_container_mode documents "unreachable" for invalid lists: only valid lists are passed
                if let Some((_, idx)) = t.find_sub_element(name, u32::MAX) {
                    if let Err(p) = no_panic(|| t.get_sub_element_container_mode(&idx)) {
                        return Outcome::Fail(Failure::new(format!("panic:spec:{}", panic_site(&p)), format!("get_sub_element_container_mode({:?}) of a found element panicked: {p}", idx), json!({"kind":"spec","tsel":tsel,"idx1":idx})));
                    }
                }
                Outcome::Pass
            }
            Err(p) => Outcome::Fail(Failure::new(
                format!("panic:spec:{}", panic_site(&p)),
                format!("specification call on type {:?} with index lists {:?} / {:?} panicked: {p}", t, idx1, idx2),
                json!({"kind": "spec", "tsel": tsel, "idx1": idx1, "idx2": idx2, "nsel": nsel, "vmask": vmask}),
            )),
        }
    });
}

fn chardata_calls(ctx: &Ctx) {
    let cases = ctx.tier.pick(200_000u64, 2_000_000u64);
    run_prop(ctx, "chardata-calls", cases, (".{0,24}", any::<u64>(), any::<f64>()), |(s, u, f), st| {
        st.eval();
        st.nontrivial(fnv(s.as_bytes()));
        let r = no_panic(|| {
            for cd in [CharacterData::String(s.clone()), CharacterData::UnsignedInteger(*u), CharacterData::Float(*f), CharacterData::Enum(EnumItem::default)] {
                let _ = cd.parse_integer::<u8>();
                let _ = cd.parse_integer::<i64>();
                let _ = cd.parse_integer::<u128>();
                let _ = cd.parse_float();
                let _ = cd.parse_bool();
                let _ = cd.to_string();
                let _ = format!("{:?}", cd);
                let _ = cd.cmp(&CharacterData::String(s.clone()));
                let _ = cd.enum_value();
                let _ = cd.string_value();
                let _ = cd.unsigned_integer_value();
                let _ = cd.float_value();
            }
            let _ = ElementName::from_bytes(s.as_bytes());
            let _ = AttributeName::from_bytes(s.as_bytes());
            let _ = EnumItem::from_bytes(s.as_bytes());
            let _ = s.parse::<AutosarVersion>();
        });
        match r {
            Ok(()) => Outcome::Pass,
            Err(p) => Outcome::Fail(Failure::new(format!("panic:chardata:{}", panic_site(&p)), format!("CharacterData / name call with {:?} panicked: {p}", s), json!({"kind":"chardata","s":s}))),
        }
    });
}

fn depth_probes(ctx: &Ctx) {
    let exe = std::env::current_exe().expect("exe");
    let depths: &[usize] = ctx.tier.pick(&[200, 2000][..], &[200, 1000, 2000, 5000][..]);
    let mut st = Stats::new();
    for d in depths {
        st.eval();
        st.nontrivial_constructed();
        match std::process::Command::new(&exe).args(["CHILD-DEEP-OPS", &d.to_string()]).output() {
            Ok(o) => {
                st.class(&format!("deep-ops:{}", if o.status.success() { "returned" } else { "crashed" }));
                if !o.status.success() {
                    let sig = if *d <= 1000 { "abort-on-nesting-depth<=1000" } else { "stack-overflow-on-deep-model" };
                    ctx.report(Failure::new(sig, format!("serialize / sort / dfs / duplicate / drop of a model nested {d} package levels deep killed the process: {:?} {}", o.status, String::from_utf8_lossy(&o.stderr).lines().last().unwrap_or("")), json!({"kind":"deep","depth":d})));
                }
            }
            Err(e) => ctx.harness_error(format!("spawn: {e}")),
        }
    }
    ctx.merge(st);
}

/// child process: build a deep model through the API and run the recursive operations on it
pub fn child_deep_ops(depth: usize) -> i32 {
    let m = AutosarModel::new();
    let f = m.create_file("deep.arxml", AutosarVersion::Autosar_00050).unwrap();
    let mut cur = m.root_element();
    for i in 0..depth {
        let Ok(p) = cur.create_sub_element(ElementName::ArPackages) else { return 3 };
        let Ok(q) = p.create_named_sub_element(ElementName::ArPackage, &format!("p{i}")) else { return 3 };
        cur = q;
    }
    let _ = cur.path();
    let _ = cur.xml_path();
    let _ = f.serialize();
    m.sort();
    let _ = m.elements_dfs().count();
    let _ = m.check_references();
    let d = m.duplicate();
    drop(d);
    let _ = f.check_version_compatibility(AutosarVersion::Autosar_4_0_1);
    let _ = format!("{:?}", m.root_element()).len();
    m.remove_file(&f);
    drop(cur);
    drop(m);
    0
}

pub fn run(ctx: &Ctx) {
    ctx.set_rule(
        "Histories over the public API (29 operation kinds incl. aliased operands e.op(&e), parent/child, ancestor/descendant, stale and foreign-model handles, removed files; fixtures: strictly loaded, empty and two-model worlds) interleaved with ~50 read-only / Debug / Ord / iterator-while-editing calls, executed under the single-thread audit monitor of the lock shim; plus specification-type calls with arbitrary index vectors, CharacterData parsing of arbitrary strings, and deep-model probes (serialize, sort, dfs, duplicate, drop) in a child process. \
         Oracle: no panic (catch_unwind), no blocking request that conflicts with a lock the same thread holds (would hang), no ParentElementLocked returned, no lock leaked, child exits normally. Non-trivial: the history contains a call with aliased, stale or foreign operands or runs on a two-model world; distinct by executed call sequence.",
    );
    ctx.assume("the audit monitor only intercepts lock requests; with it installed the real parking_lot locks are still taken after the logical grant");
    let known_open = |sig: &str| ctx.is_known_open(sig);
    let cases = ctx.tier.pick(30_000u64, 400_000u64);
    // aliasing-heavy weights: moves, removes, copies, set_ref
    let mut weights = default_weights();
    for x in weights.iter_mut() {
        if matches!(x.0, op::MOVE | op::MOVE_AT | op::REMOVE | op::COPY | op::SET_REF) {
            x.1 += 8;
        }
    }
    let strat = (0u32..4, proptest::collection::vec(op_strategy(&weights), 0..30));
    run_prop(ctx, "histories", cases, strat, |(fixture, ops), st| {
        let case = HistCase { fixture: *fixture, ops: ops.clone() };
        match run_history(&case, st, &known_open, &|f| {
            ctx.report(f);
        }) {
            Ok(()) => Outcome::Pass,
            Err(f) => Outcome::Fail(f),
        }
    });
    spec_calls(ctx);
    chardata_calls(ctx);
    depth_probes(ctx);
}

pub fn replay(ctx: &Ctx, case: &Value) {
    let mut st = Stats::new();
    if let Some(c) = HistCase::from_json(case) {
        let known_open = |_: &str| false;
        if let Err(f) = run_history(&c, &mut st, &known_open, &|_| {}) {
            ctx.report(f);
        }
    } else {
        run(ctx);
    }
    ctx.merge(st);
}
