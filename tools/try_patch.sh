#!/bin/bash
# tools/try_patch.sh <patch.diff> <tier> <check id>...  -- apply a seeded change to /repo, run the checks, undo it.
# prints one line per check: <id> exit=<code> [first VIOLATION signature]
set -u
PATCH=$1; TIER=$2; shift 2
cd /verif || exit 2
if ! git -C /repo diff --quiet; then echo "refusing: /repo has uncommitted changes" >&2; exit 2; fi
if ! git -C /repo apply "$PATCH"; then echo "patch does not apply" >&2; exit 2; fi
for id in "$@"; do
  OUT=$(./check "$id" "$TIER" 2>&1); code=$?
  sig=$(echo "$OUT" | grep -A1 "^VIOLATION" | grep "signature:" | head -3 | sed 's/ *signature: //' | tr '\n' '|')
  echo "$id exit=$code $sig"
done
git -C /repo checkout -- .
# rebuild against the clean tree so that later runs do not use the mutated library
(cd /verif/harness && CARGO_NET_OFFLINE=true cargo build --release --offline >/dev/null 2>&1)
