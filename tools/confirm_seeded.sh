#!/bin/bash
# tools/confirm_seeded.sh <ID> : confirm a seeded change in its scratch worktree /tmp/wt_<ID>, then store it under /verif/seeded/<ID>/
set -u
ID=$1; WT=/tmp/wt_$ID; low=$(echo $ID | tr A-Z a-z)
cd $WT || exit 2
export CARGO_NET_OFFLINE=true
DEMO=autosar-data/tests/demo_$low.rs
[ -f $DEMO ] || { echo "no demo"; exit 2; }
# 1. with the change: existing tests pass, demo fails
mv $DEMO /tmp/demo_$low.rs.keep
SUITE=$(cargo test --workspace --offline --no-fail-fast 2>&1 | grep "^test result" | tr '\n' ' ')
mv /tmp/demo_$low.rs.keep $DEMO
WITH=$(cargo test --offline -p autosar-data --test demo_$low 2>&1 | grep "^test result" | head -1)
# 2. without the change: demo passes
git diff -- autosar-data/src autosar-data-specification/src > /tmp/confirm_$ID.diff; git apply -R /tmp/confirm_$ID.diff
WITHOUT=$(cargo test --offline -p autosar-data --test demo_$low 2>&1 | grep "^test result" | head -1)
git apply /tmp/confirm_$ID.diff
echo "$ID suite-with-change: $SUITE"
echo "$ID demo-with-change: $WITH"
echo "$ID demo-without-change: $WITHOUT"
ok=1
echo "$SUITE" | grep -q "FAILED\|failed; [1-9]" && ok=0
echo "$SUITE" | grep -q "116 passed" || ok=0
echo "$WITH" | grep -q "FAILED" || ok=0
echo "$WITHOUT" | grep -q "test result: ok" || ok=0
if [ $ok = 1 ]; then
  mkdir -p /verif/seeded/$ID
  git diff -- autosar-data/src autosar-data-specification/src > /verif/seeded/$ID/patch.diff
  cp $DEMO /verif/seeded/$ID/
  cp seeded/NOTES.md /verif/seeded/$ID/NOTES.md 2>/dev/null
  echo "$ID CONFIRMED"
else
  echo "$ID NOT CONFIRMED"
fi
