//! Single-thread audit monitor for the lock shim (hook feature `verif`): a blocking request that
//! conflicts with a lock the SAME thread already holds is a self-deadlock (reported by
//! unwinding instead of hanging); a try/timed request that fails for that reason is recorded
//! as a spurious self-conflict. Timed waits cost no real time.
#![allow(dead_code)]

use autosar_data::verif::{set_thread_monitor, LockEvent, LockKind, LockMode, LockMonitor};
use std::cell::RefCell;
use std::sync::Arc;

#[derive(Clone, Debug)]
pub struct Conflict {
    pub kind: &'static str, // "self-deadlock" | "spurious-self-conflict"
    pub class: String,
    pub mode: LockMode,
    pub request_site: String,
    pub held_sites: Vec<String>,
}

#[derive(Default)]
struct State {
    /// held locks: (address, mode, site)
    held: Vec<(usize, LockMode, String)>,
    conflicts: Vec<Conflict>,
    max_held: usize,
    requests: u64,
}

pub struct AuditMonitor {
    st: RefCell<State>,
}

// The monitor is only ever used from the thread that installed it.
unsafe impl Send for AuditMonitor {}
unsafe impl Sync for AuditMonitor {}

pub const DEADLOCK_PANIC: &str = "VERIF-SELF-DEADLOCK";

thread_local! {
    static DUMP_BLOCKING: std::cell::Cell<bool> = std::cell::Cell::new(std::env::var("VERIF_DUMP_BLOCKING").is_ok());
    static SEEN: RefCell<std::collections::HashSet<(&'static str, u32, bool)>> = RefCell::new(std::collections::HashSet::new());
}

fn short_class(c: &str) -> String {
    c.rsplit("::").next().unwrap_or(c).to_string()
}

fn site(ev: &LockEvent) -> String {
    let f = ev.site.file().rsplit('/').next().unwrap_or("");
    format!("{}:{}", f, ev.site.line())
}

impl LockMonitor for AuditMonitor {
    fn request(&self, ev: &LockEvent) -> bool {
        let mut st = self.st.borrow_mut();
        st.requests += 1;
        if ev.kind == LockKind::Block && DUMP_BLOCKING.with(|d| d.get()) {
            let key = (ev.site.file(), ev.site.line(), ev.mode == LockMode::Write);
            let newly = SEEN.with(|s| s.borrow_mut().insert(key));
            if newly {
                eprintln!("BLOCKSITE {}:{} {} {:?}", ev.site.file().rsplit('/').next().unwrap_or(""), ev.site.line(), short_class(ev.class), ev.mode);
            }
        }
        let conflict_sites: Vec<String> = st
            .held
            .iter()
            .filter(|(a, m, _)| *a == ev.lock && (ev.mode == LockMode::Write || *m == LockMode::Write))
            .map(|(_, _, s)| s.clone())
            .collect();
        if conflict_sites.is_empty() {
            st.held.push((ev.lock, ev.mode, site(ev)));
            st.max_held = st.max_held.max(st.held.len());
            return true;
        }
        let c = Conflict {
            kind: if ev.kind == LockKind::Block { "self-deadlock" } else { "spurious-self-conflict" },
            class: short_class(ev.class),
            mode: ev.mode,
            request_site: site(ev),
            held_sites: conflict_sites,
        };
        st.conflicts.push(c);
        if ev.kind == LockKind::Block {
            drop(st);
            // unwinding releases all guards held by the operation
            std::panic::panic_any(DEADLOCK_PANIC.to_string());
        }
        false
    }
    fn release(&self, ev: &LockEvent) {
        let mut st = self.st.borrow_mut();
        if let Some(pos) = st.held.iter().rposition(|(a, m, _)| *a == ev.lock && *m == ev.mode) {
            st.held.remove(pos);
        }
    }
}

pub struct Audit {
    mon: Arc<AuditMonitor>,
}

impl Audit {
    /// install an audit monitor on the calling thread
    pub fn install() -> Audit {
        let mon = Arc::new(AuditMonitor { st: RefCell::new(State::default()) });
        set_thread_monitor(Some(mon.clone()));
        Audit { mon }
    }
    /// conflicts recorded since the last call
    pub fn take_conflicts(&self) -> Vec<Conflict> {
        std::mem::take(&mut self.mon.st.borrow_mut().conflicts)
    }
    pub fn held(&self) -> usize {
        self.mon.st.borrow().held.len()
    }
    pub fn reset_held(&self) {
        self.mon.st.borrow_mut().held.clear();
    }
    pub fn requests(&self) -> u64 {
        self.mon.st.borrow().requests
    }
}

impl Drop for Audit {
    fn drop(&mut self) {
        set_thread_monitor(None);
    }
}
