//! C14 — sorting is a content-preserving, idempotent canonicalisation.
use crate::adoc::*;
use crate::audit::*;
use crate::engine::*;
use crate::hist::World;
use crate::inv::*;
use crate::spec::*;
use autosar_data::*;
use proptest::prelude::*;
use serde_json::{json, Value};
use std::collections::HashSet;

const UNIVERSE: &[&str] = &["a", "a1", "a2", "a10", "a1b", "a02", "a2b", "b", "b1", "b10", "b2", "pkg1", "pkg10", "pkg2", "x9", "x10", "x1a", "x", "A1", "A10", "a_1", "a_10", "a_2", "z9z", "z10z", "n007", "n7", "n70", "n18446744073709551616", "n18446744073709551617", "n99999999999999999999"];

#[derive(Clone, Debug)]
struct Param {
    defref: String,
    index: Option<u32>,
    value: u32,
    textual: bool,
    /// nested reorderable container inside an anonymous sibling: ANNOTATIONS / ANNOTATION / ANNOTATION-ORIGIN
    annotations: Vec<String>,
}

#[derive(Clone, Debug)]
struct Cont {
    name: String,
    index: Option<u32>,
    defref: String,
    params: Vec<Param>,
    subs: Vec<Cont>,
}

#[derive(Clone, Debug)]
enum Elem {
    Signal(String),
    ISignal(String),
    Unit(String),
    Compu(String, Vec<(u32, Option<String>)>),
    Ecuc(String, Vec<Cont>),
    /// BSW-MODULE-ENTRY with an ORDERED ARGUMENTS list; every argument may carry a reorderable ANNOTATIONS list
    Bsw(String, Vec<(String, Vec<String>)>),
    /// SYSTEM-SIGNAL with a LONG-NAME (L-4 items: language attribute, text) and ADMIN-DATA/SDGS/SDG (SD items: GID attribute,
    /// text): anonymous siblings that may differ ONLY in an attribute value
    Doc(String, Vec<(usize, usize)>, Vec<(usize, usize)>),
}

const LANGS: &[&str] = &["EN", "DE", "FR", "AA", "FOR-ALL"];
const TEXTS: &[&str] = &["Name", "x", "y"];
const GIDS: &[&str] = &["b", "a", "g10", "g2"];

impl Elem {
    fn name(&self) -> &str {
        match self {
            Elem::Signal(n) | Elem::ISignal(n) | Elem::Unit(n) | Elem::Compu(n, _) | Elem::Ecuc(n, _) | Elem::Bsw(n, _) | Elem::Doc(n, _, _) => n,
        }
    }
}

#[derive(Clone, Debug)]
struct Pkg {
    name: String,
    elems: Vec<Elem>,
}

#[derive(Clone, Debug)]
pub struct SortDoc {
    pkgs: Vec<Pkg>,
}

fn names(t: &mut Tape, n: usize) -> Vec<String> {
    // distinct names: from the cyclic universe first, numbered beyond
    let mut pool: Vec<String> = UNIVERSE.iter().map(|s| s.to_string()).collect();
    let mut out = vec![];
    for i in 0..n {
        if pool.is_empty() {
            out.push(format!("g{}", t.below(3) * 100 + i));
            continue;
        }
        let k = t.below(pool.len());
        out.push(pool.remove(k));
    }
    // numbered names could collide: make unique
    let mut seen = HashSet::new();
    for (i, n) in out.iter_mut().enumerate() {
        while !seen.insert(n.clone()) {
            n.push_str(&format!("_{i}"));
        }
    }
    out
}

fn gen_cont(t: &mut Tape, name: String, depth: usize) -> Cont {
    let nparams = t.below(5);
    let mut params = vec![];
    for i in 0..nparams {
        let na = if t.chance(110) { 1 + t.below(3) } else { 0 };
        let annotations = (0..na).map(|_| ["z", "a", "m", "b2", "b10", "k"][t.below(6)].to_string()).collect();
        params.push(Param { defref: format!("/def/c/p{}", t.below(4)), index: if t.chance(90) { Some(t.below(12) as u32) } else { None }, value: (i as u32) * 7 + t.below(5) as u32, textual: t.chance(100), annotations });
    }
    // parameters must be pairwise different (identical ones are indistinguishable anyway)
    let nsub = if depth < 2 { t.below(4) } else { 0 };
    let subnames = names(t, nsub);
    let subs = subnames.into_iter().map(|n| gen_cont(t, n, depth + 1)).collect();
    Cont { name, index: if t.chance(100) { Some(t.below(30) as u32) } else { None }, defref: format!("/def/c{}", t.below(3)), params, subs }
}

pub fn gen_doc(tape: &[u32]) -> SortDoc {
    let mut t = Tape::new(tape);
    let npk = 1 + t.below(5);
    let big = t.chance(40);
    let pk_names = names(&mut t, npk);
    let mut pkgs = vec![];
    for pn in pk_names {
        let ne = if big && pkgs.is_empty() { 22 + t.below(40) } else { t.below(9) };
        let en = names(&mut t, ne);
        let mut elems = vec![];
        for n in en {
            let e = match t.below(9) {
                8 => {
                    // pairwise different (attribute, text) pairs; equal texts with different attributes are the point
                    let mut l4: Vec<(usize, usize)> = (0..t.below(5)).map(|_| (t.below(LANGS.len()), t.below(2))).collect();
                    l4.sort();
                    l4.dedup();
                    // one entry per language (L-4 of one language twice is not meaningful)
                    l4.dedup_by_key(|x| x.0);
                    let mut sd: Vec<(usize, usize)> = (0..t.below(5)).map(|_| (t.below(GIDS.len()), t.below(2))).collect();
                    sd.sort();
                    sd.dedup();
                    let mut sm = SplitMix(t.below(1 << 16) as u64);
                    permute(&mut l4, &mut sm);
                    permute(&mut sd, &mut sm);
                    Elem::Doc(n, l4, sd)
                }
                0 | 1 => Elem::Signal(n),
                2 => Elem::ISignal(n),
                3 => Elem::Unit(n),
                4 | 5 => {
                    let k = t.below(6);
                    let mut scales = vec![];
                    for i in 0..k {
                        scales.push(((t.below(20) as u32) * 10 + i as u32, if t.chance(100) { Some(format!("l{}", t.below(12))) } else { None }));
                    }
                    Elem::Compu(n, scales)
                }
                6 => {
                    let k = t.below(5);
                    let cn = names(&mut t, k);
                    Elem::Ecuc(n, cn.into_iter().map(|c| gen_cont(&mut t, c, 0)).collect())
                }
                _ => {
                    let k = t.below(5);
                    let an = names(&mut t, k);
                    Elem::Bsw(
                        n,
                        an.into_iter()
                            .map(|a| {
                                let na = if t.chance(120) { 2 + t.below(3) } else { 0 };
                                let mut origins: Vec<String> = (0..na).map(|_| ["z", "a", "m", "b2", "b10", "k"][t.below(6)].to_string()).collect();
                                origins.sort();
                                origins.dedup();
                                let mut sm = SplitMix(t.below(1 << 16) as u64);
                                permute(&mut origins, &mut sm);
                                (a, origins)
                            })
                            .collect(),
                    )
                }
            };
            elems.push(e);
        }
        pkgs.push(Pkg { name: pn, elems });
    }
    SortDoc { pkgs }
}

fn permute<T: Clone>(v: &mut Vec<T>, sm: &mut SplitMix) -> bool {
    let before_len = v.len();
    let mut changed = false;
    for i in (1..before_len).rev() {
        let j = sm.below(i + 1);
        if i != j {
            v.swap(i, j);
            changed = true;
        }
    }
    changed
}

fn permute_cont(c: &mut Cont, sm: &mut SplitMix) -> bool {
    let mut ch = permute(&mut c.params, sm);
    ch |= permute(&mut c.subs, sm);
    for s in &mut c.subs {
        ch |= permute_cont(s, sm);
    }
    ch
}

/// which of the list-holding element kinds does the specification mark as ordered (not reorderable)?
/// read from the element types of a probe model, so that the generator follows the specification
#[derive(Clone, Copy, Debug)]
pub struct Ordered {
    packages: bool,
    elements: bool,
    scales: bool,
    containers: bool,
    subcontainers: bool,
    params: bool,
    annotations: bool,
    long_name: bool,
    sdg: bool,
}

pub fn ordered_flags() -> Ordered {
    static F: std::sync::OnceLock<Ordered> = std::sync::OnceLock::new();
    *F.get_or_init(|| {
        let probe = SortDoc {
            pkgs: vec![Pkg {
                name: "p".into(),
                elems: vec![
                    Elem::Doc("d".into(), vec![(0, 0)], vec![(0, 0)]),
                    Elem::Compu("c".into(), vec![(0, None)]),
                    Elem::Ecuc("e".into(), vec![Cont { name: "k".into(), index: None, defref: "/d".into(), params: vec![Param { defref: "/d/p".into(), index: None, value: 1, textual: false, annotations: vec!["o".into()] }], subs: vec![Cont { name: "s".into(), index: None, defref: "/d".into(), params: vec![], subs: vec![] }] }]),
                ],
            }],
        };
        let (m, _f) = build(&probe).expect("probe model");
        let ord = |n: ElementName| m.elements_dfs().map(|(_, e)| e).find(|e| e.element_name() == n).map(|e| e.element_type().is_ordered()).unwrap_or(true);
        Ordered {
            packages: ord(ElementName::ArPackages),
            elements: ord(ElementName::Elements),
            scales: ord(ElementName::CompuScales),
            containers: ord(ElementName::Containers),
            subcontainers: ord(ElementName::SubContainers),
            params: ord(ElementName::ParameterValues),
            annotations: ord(ElementName::Annotations),
            long_name: ord(ElementName::LongName),
            sdg: ord(ElementName::Sdg),
        }
    })
}

fn permute_cont2(c: &mut Cont, sm: &mut SplitMix, o: Ordered) -> bool {
    let mut ch = false;
    if !o.params {
        ch |= permute(&mut c.params, sm);
    }
    if !o.annotations {
        for p in &mut c.params {
            ch |= permute(&mut p.annotations, sm);
        }
    }
    if !o.subcontainers {
        ch |= permute(&mut c.subs, sm);
    }
    for s in &mut c.subs {
        ch |= permute_cont2(s, sm, o);
    }
    ch
}

/// permute every reorderable sibling list (lists whose parent type is_ordered() stay as they are)
pub fn permuted(d: &SortDoc, seed: u64) -> (SortDoc, bool) {
    let o = ordered_flags();
    let mut sm = SplitMix(seed);
    let mut p = d.clone();
    let mut ch = false;
    if !o.packages {
        ch |= permute(&mut p.pkgs, &mut sm);
    }
    for pk in &mut p.pkgs {
        if !o.elements {
            ch |= permute(&mut pk.elems, &mut sm);
        }
        for e in &mut pk.elems {
            match e {
                Elem::Compu(_, scales) => {
                    if !o.scales {
                        ch |= permute(scales, &mut sm)
                    }
                }
                Elem::Bsw(_, args) => {
                    // ARGUMENTS itself is ordered (stays); the ANNOTATIONS below each argument are not
                    if !o.annotations {
                        for (_, origins) in args.iter_mut() {
                            ch |= permute(origins, &mut sm);
                        }
                    }
                }
                Elem::Doc(_, l4, sd) => {
                    if !o.long_name {
                        ch |= permute(l4, &mut sm);
                    }
                    if !o.sdg {
                        ch |= permute(sd, &mut sm);
                    }
                }
                Elem::Ecuc(_, conts) => {
                    if !o.containers {
                        ch |= permute(conts, &mut sm);
                    }
                    for c in conts {
                        ch |= permute_cont2(c, &mut sm, o);
                    }
                }
                _ => {}
            }
        }
    }
    (p, ch)
}

type R<T> = Result<T, AutosarDataError>;

fn build_cont(parent: &Element, c: &Cont) -> R<()> {
    let e = parent.create_named_sub_element(ElementName::EcucContainerValue, &c.name)?;
    if let Some(i) = c.index {
        e.create_sub_element(ElementName::Index)?.set_character_data(i.to_string())?;
    }
    let dr = e.create_sub_element(ElementName::DefinitionRef)?;
    dr.set_attribute(AttributeName::Dest, CharacterData::Enum(EnumItem::EcucParamConfContainerDef))?;
    dr.set_character_data(c.defref.clone())?;
    if !c.params.is_empty() {
        let pv = e.create_sub_element(ElementName::ParameterValues)?;
        for p in &c.params {
            let (kind, dest) = if p.textual { (ElementName::EcucTextualParamValue, EnumItem::EcucStringParamDef) } else { (ElementName::EcucNumericalParamValue, EnumItem::EcucIntegerParamDef) };
            let pe = pv.create_sub_element(kind)?;
            if let Some(i) = p.index {
                pe.create_sub_element(ElementName::Index)?.set_character_data(i.to_string())?;
            }
            let dr = pe.create_sub_element(ElementName::DefinitionRef)?;
            dr.set_attribute(AttributeName::Dest, CharacterData::Enum(dest))?;
            dr.set_character_data(p.defref.clone())?;
            pe.create_sub_element(ElementName::Value)?.set_character_data(p.value.to_string())?;
            if !p.annotations.is_empty() {
                let an = pe.create_sub_element(ElementName::Annotations)?;
                for o in &p.annotations {
                    an.create_sub_element(ElementName::Annotation)?.create_sub_element(ElementName::AnnotationOrigin)?.set_character_data(o.clone())?;
                }
            }
        }
    }
    if !c.subs.is_empty() {
        let sc = e.create_sub_element(ElementName::SubContainers)?;
        for s in &c.subs {
            build_cont(&sc, s)?;
        }
    }
    Ok(())
}

pub fn build(d: &SortDoc) -> R<(AutosarModel, ArxmlFile)> {
    let m = AutosarModel::new();
    let f = m.create_file("sort.arxml", AutosarVersion::Autosar_00050)?;
    if d.pkgs.is_empty() {
        return Ok((m, f));
    }
    let pk = m.root_element().create_sub_element(ElementName::ArPackages)?;
    for p in &d.pkgs {
        let pe = pk.create_named_sub_element(ElementName::ArPackage, &p.name)?;
        if p.elems.is_empty() {
            continue;
        }
        let els = pe.create_sub_element(ElementName::Elements)?;
        for e in &p.elems {
            match e {
                Elem::Signal(n) => {
                    els.create_named_sub_element(ElementName::SystemSignal, n)?;
                }
                Elem::ISignal(n) => {
                    els.create_named_sub_element(ElementName::ISignal, n)?;
                }
                Elem::Unit(n) => {
                    els.create_named_sub_element(ElementName::Unit, n)?;
                }
                Elem::Compu(n, scales) => {
                    let cm = els.create_named_sub_element(ElementName::CompuMethod, n)?;
                    if !scales.is_empty() {
                        let cs = cm.create_sub_element(ElementName::CompuInternalToPhys)?.create_sub_element(ElementName::CompuScales)?;
                        for (lo, label) in scales {
                            let s = cs.create_sub_element(ElementName::CompuScale)?;
                            if let Some(l) = label {
                                s.create_sub_element(ElementName::ShortLabel)?.set_character_data(l.clone())?;
                            }
                            s.create_sub_element(ElementName::LowerLimit)?.set_character_data(lo.to_string())?;
                        }
                    }
                }
                Elem::Ecuc(n, conts) => {
                    let mc = els.create_named_sub_element(ElementName::EcucModuleConfigurationValues, n)?;
                    if !conts.is_empty() {
                        let cs = mc.create_sub_element(ElementName::Containers)?;
                        for c in conts {
                            build_cont(&cs, c)?;
                        }
                    }
                }
                Elem::Doc(n, l4, sd) => {
                    let sg = els.create_named_sub_element(ElementName::SystemSignal, n)?;
                    if !l4.is_empty() {
                        let ln = sg.create_sub_element(ElementName::LongName)?;
                        for (lang, text) in l4 {
                            let l = ln.create_sub_element(ElementName::L4)?;
                            l.set_attribute_string(AttributeName::L, LANGS[*lang])?;
                            l.insert_character_content_item(TEXTS[*text], 0)?;
                        }
                    }
                    if !sd.is_empty() {
                        let g = sg.create_sub_element(ElementName::AdminData)?.create_sub_element(ElementName::Sdgs)?.create_sub_element(ElementName::Sdg)?;
                        g.set_attribute_string(AttributeName::Gid, "grp")?;
                        for (gid, text) in sd {
                            let x = g.create_sub_element(ElementName::Sd)?;
                            x.set_attribute_string(AttributeName::Gid, GIDS[*gid])?;
                            x.set_character_data(TEXTS[*text].to_string())?;
                        }
                        // a nested SEQUENCE group of the specification: PRM-CHAR = ((ABS TOL) | (MIN TYP MAX)) PRM-UNIT REMARK - the
                        // members keep the order of the group, which is neither alphabetical nor given by the top-level position
                        let prms = els.create_named_sub_element(ElementName::Documentation, &format!("{n}_doc"))?.create_sub_element(ElementName::DocumentationContent)?.create_sub_element(ElementName::Prms)?;
                        // (chosen from the SET of group ids, so that the permuted build makes the same elements)
                        let mut gs: Vec<usize> = sd.iter().map(|(g, _)| *g as usize).collect();
                        gs.sort();
                        gs.dedup();
                        for gid in gs.iter().take(3) {
                            let pc = prms.create_named_sub_element(ElementName::Prm, &format!("prm{gid}"))?.create_sub_element(ElementName::PrmChar)?;
                            if gid % 2 == 0 {
                                for (k, v) in [(ElementName::Min, "1"), (ElementName::Typ, "2"), (ElementName::Max, "3")] {
                                    pc.create_sub_element(k)?.set_character_data(v.to_string())?;
                                }
                            } else {
                                for (k, v) in [(ElementName::Abs, "1"), (ElementName::Tol, "2")] {
                                    pc.create_sub_element(k)?.set_character_data(v.to_string())?;
                                }
                            }
                            pc.create_sub_element(ElementName::PrmUnit)?.set_character_data("V".to_string())?;
                        }
                    }
                }
                Elem::Bsw(n, args) => {
                    let b = els.create_named_sub_element(ElementName::BswModuleEntry, n)?;
                    if !args.is_empty() {
                        let a = b.create_sub_element(ElementName::Arguments)?;
                        for (an, origins) in args {
                            let arg = a.create_named_sub_element(ElementName::SwServiceArg, an)?;
                            if !origins.is_empty() {
                                let ann = arg.create_sub_element(ElementName::Annotations)?;
                                for o in origins {
                                    ann.create_sub_element(ElementName::Annotation)?.create_sub_element(ElementName::AnnotationOrigin)?.set_character_data(o.clone())?;
                                }
                            }
                        }
                    }
                }
            }
        }
    }
    Ok((m, f))
}

/// canonical form: order kept where the specification forbids reordering, sorted multiset elsewhere
fn canon(e: &Element) -> String {
    let et = e.element_type();
    let keep_order = et.is_ordered() || matches!(et.content_mode(), autosar_data_specification::ContentMode::Mixed | autosar_data_specification::ContentMode::Characters);
    let mut kids: Vec<String> = e
        .content()
        .map(|c| match c {
            ElementContent::Element(k) => canon(&k),
            ElementContent::CharacterData(cd) => format!("{:?}", cd),
        })
        .collect();
    if !keep_order {
        kids.sort();
    }
    let attrs: Vec<String> = e.attributes().map(|a| format!("{}={:?}", a.attrname, a.content)).collect();
    format!("<{} {:?} {:?}>[{}]", e.element_name(), attrs, e.comment(), kids.join(","))
}

fn check_valid(e: &Element, vbit: u32) -> Result<(), String> {
    let si = SpecIndex::get();
    let tid = si.id_of(e.element_type());
    if matches!(e.element_type().content_mode(), autosar_data_specification::ContentMode::Sequence | autosar_data_specification::ContentMode::Choice | autosar_data_specification::ContentMode::Bag) {
        if let Some(g) = si.grammar(tid, vbit) {
            let names: Vec<ElementName> = e.sub_elements().map(|k| k.element_name()).collect();
            if !valid_content(&g, &names) {
                return Err(format!("children of {} are not in specification order after sort: {:?}", e.xml_path(), names));
            }
        }
    }
    for k in e.sub_elements() {
        check_valid(&k, vbit)?;
    }
    Ok(())
}

pub fn run_case(tape: &[u32], perm_seed: u64, st: &mut Stats) -> Result<(), Failure> {
    let case = json!({"kind": "sort", "tape": tape, "perm_seed": perm_seed});
    let d = gen_doc(tape);
    let (dp, changed) = permuted(&d, perm_seed);
    st.eval();
    let _audit = Audit::install();
    let fail = |sig: &str, msg: String| Failure::new(sig, format!("{msg}\n--- model description ---\n{:?}", d), case.clone());
    let (ma, fa) = build(&d).map_err(|e| fail("harness:build", format!("cannot build the model: {e}")))?;
    let (mb, fb) = build(&dp).map_err(|e| fail("harness:build", format!("cannot build the permuted model: {e}")))?;
    let max_sibs = d.pkgs.iter().map(|p| p.elems.len()).max().unwrap_or(0).max(d.pkgs.len());
    st.class(if max_sibs >= 21 { "siblings>=21" } else if max_sibs >= 3 { "siblings>=3" } else { "siblings<3" });
    // pre-state
    let pre_canon = canon(&ma.root_element());
    let pre_ids: HashSet<Element> = ma.elements_dfs().map(|(_, e)| e).collect();
    let ordered_before: Vec<(Element, Vec<Element>)> = ma.elements_dfs().map(|(_, e)| e).filter(|e| e.element_type().is_ordered()).map(|e| (e.clone(), e.sub_elements().collect())).collect();
    if let Err(p) = no_panic(|| ma.sort()) {
        return Err(fail(if p.contains(DEADLOCK_PANIC) { "sort:self-deadlock" } else { "sort:panic" }, format!("sort() panicked: {p}")));
    }
    // content preserved
    let post_canon = canon(&ma.root_element());
    if pre_canon != post_canon {
        return Err(fail("sort:content-changed", "sort() changed elements, values, attributes, comments or the order of an ordered / mixed element".into()));
    }
    let post_ids: HashSet<Element> = ma.elements_dfs().map(|(_, e)| e).collect();
    if pre_ids != post_ids {
        return Err(fail("sort:element-objects-changed", "the set of element objects differs after sort()".into()));
    }
    for (e, kids) in &ordered_before {
        let now: Vec<Element> = e.sub_elements().collect();
        if &now != kids {
            return Err(fail("sort:ordered-element-reordered", format!("children of the ordered element {} were reordered", e.xml_path())));
        }
    }
    check_valid(&ma.root_element(), AutosarVersion::Autosar_00050 as u32).map_err(|m| fail("sort:invalid-order", m))?;
    // lookups intact
    {
        let mut w = World::new(0);
        w.models.push(ma.clone());
        w.files.push(crate::hist::FileH { model: 0, file: fa.clone() });
        w.rescan();
        let s = scan(&mut w, 0);
        inv_paths(&mut w, 0, &s).map_err(|(sig, m)| fail(&format!("sort:{sig}"), m))?;
        inv_refs(&mut w, 0, &s).map_err(|(sig, m)| fail(&format!("sort:{sig}"), m))?;
        inv_tree(&mut w, 0, &s, false).map_err(|(sig, m)| fail(&format!("sort:{sig}"), m))?;
    }
    // idempotence
    let t1 = fa.serialize().map_err(|e| fail("harness:serialize", format!("{e}")))?;
    if let Err(p) = no_panic(|| ma.sort()) {
        return Err(fail("sort:panic", format!("second sort() panicked: {p}")));
    }
    let t2 = fa.serialize().map_err(|e| fail("harness:serialize", format!("{e}")))?;
    if t1 != t2 {
        return Err(fail("sort:not-idempotent", format!("sorting twice differs from sorting once\n--- first ---\n{}\n--- second ---\n{}", first_diff(&t1, &t2), "")));
    }
    // permutation invariance
    if let Err(p) = no_panic(|| mb.sort()) {
        return Err(fail("sort:panic", format!("sort() of the permuted model panicked: {p}")));
    }
    let tb = fb.serialize().map_err(|e| fail("harness:serialize", format!("{e}")))?;
    if tb != t1 {
        let cyc = involves_cyclic_names(&d);
        return Err(fail(if cyc { "sort:order-dependent:item-name-order-not-total" } else { "sort:order-dependent" }, format!("the sorted result depends on the order the siblings had before: {}", first_diff(&t1, &tb))));
    }
    if changed && max_sibs >= 3 {
        st.nontrivial(fnv(t1.as_bytes()) ^ perm_seed);
        if st.want_sample() && t1.len() < 1500 {
            st.sample(json!({"sorted_text": t1, "permutation_seed": perm_seed}));
        }
    }
    Ok(())
}

fn first_diff(a: &str, b: &str) -> String {
    let la: Vec<&str> = a.lines().collect();
    let lb: Vec<&str> = b.lines().collect();
    for i in 0..la.len().max(lb.len()) {
        if la.get(i) != lb.get(i) {
            let lo = i.saturating_sub(3);
            return format!("first difference at line {}:\n A: {}\n B: {}", i + 1, la[lo..(i + 3).min(la.len())].join("\n    "), lb[lo..(i + 3).min(lb.len())].join("\n    "));
        }
    }
    "equal".into()
}

/// do sibling names of one list contain a name with trailing digits next to a name that shares the
/// base as a proper prefix but has no trailing digits (the a10 / a2 / a1b shape)?
fn involves_cyclic_names(d: &SortDoc) -> bool {
    fn split(n: &str) -> (&str, bool) {
        let t = n.trim_end_matches(|c: char| c.is_ascii_digit());
        (t, t.len() < n.len())
    }
    fn cyclic(names: &[&str]) -> bool {
        for a in names {
            let (ba, da) = split(a);
            if !da {
                continue;
            }
            for b in names {
                let (_, db) = split(b);
                if !db && b.starts_with(ba) && b.len() > ba.len() {
                    return true;
                }
            }
        }
        false
    }
    let pk: Vec<&str> = d.pkgs.iter().map(|p| p.name.as_str()).collect();
    if cyclic(&pk) {
        return true;
    }
    for p in &d.pkgs {
        let en: Vec<&str> = p.elems.iter().map(|e| e.name()).collect();
        if cyclic(&en) {
            return true;
        }
        for e in &p.elems {
            if let Elem::Ecuc(_, conts) = e {
                fn rec(c: &[Cont]) -> bool {
                    let n: Vec<&str> = c.iter().map(|x| x.name.as_str()).collect();
                    cyclic(&n) || c.iter().any(|x| rec(&x.subs))
                }
                if rec(conts) {
                    return true;
                }
            }
        }
    }
    false
}

pub fn run(ctx: &Ctx) {
    ctx.set_rule(
        "Models built through the API from a generated description: packages and elements named from a letter/digit universe (a, a1, a2, a10, a1b, a02, pkg1, pkg10, n007, n7 ...), COMPU-SCALEs, ECUC containers / parameter values with INDEX and DEFINITION-REF keys (equal keys included), mixed kinds inside the ELEMENTS bag, an ordered ARGUMENTS container, PRM-CHAR elements (nested sequence groups MIN TYP MAX / ABS TOL before PRM-UNIT), sibling lists of up to 60 elements; each model is built twice, the second time with every reorderable sibling list permuted. \
         Oracle: sort() keeps the element objects and a canonical form (order-sensitive only where the specification forbids reordering), keeps specification order (own grammar matcher), path and reference lookups; sort.sort == sort on the serialized text; sort(permuted) == sort(original) byte for byte; no panic. Non-trivial: >= 3 reorderable siblings and a non-identity permutation; distinct by sorted text and permutation.",
    );
    let cases = ctx.tier.pick(12_000u64, 150_000u64);
    {
        let mut st = Stats::new();
        st.sample(json!({"ordered_flags_read_from_the_specification": format!("{:?}", ordered_flags())}));
        ctx.merge(st);
    }
    let strat = (proptest::collection::vec(any::<u32>(), 0..400), any::<u64>());
    run_prop(ctx, "sort", cases, strat, |(tape, ps), st| match run_case(tape, *ps, st) {
        Ok(()) => Outcome::Pass,
        Err(f) => Outcome::Fail(f),
    });
}

pub fn replay(ctx: &Ctx, case: &Value) {
    let mut st = Stats::new();
    let tape: Vec<u32> = case["tape"].as_array().map(|a| a.iter().map(|x| x.as_u64().unwrap_or(0) as u32).collect()).unwrap_or_default();
    let ps = case["perm_seed"].as_u64().unwrap_or(0);
    if let Err(f) = run_case(&tape, ps, &mut st) {
        ctx.report(f);
    }
    ctx.merge(st);
}
