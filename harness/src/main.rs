//! verif — property-based testing / fuzzing harness for autosar-data (one sub-command per property)

use verif::engine::*;
use verif::*;

fn replay_dispatch(ctx: &Ctx, id: &str, case: &serde_json::Value) {
    match id {
                        "C01" => c01::replay(ctx, &case),
                        "C02" => c02::replay(ctx, &case),
                        "C08" => c08::replay(ctx, &case),
                        "C20" => c20::replay(ctx, &case),
                        "C03" => histprops::replay(ctx, histprops::Prop::C03, &case),
                        "C04" => histprops::replay(ctx, histprops::Prop::C04, &case),
                        "C05" => histprops::replay(ctx, histprops::Prop::C05, &case),
                        "C10" => histprops::replay(ctx, histprops::Prop::C10, &case),
                        "C11" => histprops::replay(ctx, histprops::Prop::C11, &case),
                        "C12" => c12::replay(ctx, &case),
                        "C06" => c06::replay(ctx, &case),
                        "C14" => c14::replay(ctx, &case),
                        "C07" => c07::replay(ctx, &case),
                        "C13" => c13::replay(ctx, &case),
                        "C09" => c09::replay(ctx, &case),
                        "C15" => c15::replay(ctx, c15::Which::C15, &case),
                        "C16" => c15::replay(ctx, c15::Which::C16, &case),
                        "C17" => c17::replay(ctx, &case),
                        "C18" => c18::replay(ctx, &case),
                        "C19" => c19::replay(ctx, &case),
                        _ => usage(),
    }
}

/// committed regression inputs of this property (one per open known finding, plus fixed ones): replayed first in every tier
fn run_regressions(ctx: &Ctx, id: &str) {
    let dir = format!("{}/regress/{}", verif_dir(), id);
    let Ok(rd) = std::fs::read_dir(&dir) else { return };
    let mut files: Vec<_> = rd.filter_map(|e| e.ok()).map(|e| e.path()).filter(|p| p.extension().is_some_and(|x| x == "json")).collect();
    files.sort();
    for f in files {
        let Ok(text) = std::fs::read_to_string(&f) else { continue };
        let Ok(v) = serde_json::from_str::<serde_json::Value>(&text) else { continue };
        let case = if v.get("case").is_some() { v["case"].clone() } else { v };
        let before: u64 = ctx.known_hits.lock().unwrap().values().map(|x| x.0).sum::<u64>() + ctx.violations.lock().unwrap().len() as u64;
        replay_dispatch(ctx, id, &case);
        let after: u64 = ctx.known_hits.lock().unwrap().values().map(|x| x.0).sum::<u64>() + ctx.violations.lock().unwrap().len() as u64;
        // a regression input that no longer shows anything is not an error (the defect may have been repaired,
        // or the fixture it is positioned on has changed); it is counted so that the evidence file tells
        let mut st = Stats::new();
        st.class(if after > before { "regress:reproduced" } else { "regress:not-reproduced" });
        if after == before {
            eprintln!("note: regression input {} did not reproduce anything", f.display());
        }
        ctx.merge(st);
    }
}

fn usage() -> ! {
    eprintln!("usage: verif <C01..C20> <quick|thorough> | verif <id> --replay <file>");
    std::process::exit(2);
}

fn main() {
    install_panic_hook();
    let args: Vec<String> = std::env::args().collect();
    if args.len() < 3 {
        usage();
    }
    let id = args[1].to_uppercase();
    if id == "CHILD-DEPTH" {
        let d: usize = args[2].parse().unwrap();
        std::process::exit(c02::child_depth(d, &args[3]));
    }
    if id == "CHILD-DEEP-OPS" {
        let d: usize = args[2].parse().unwrap();
        std::process::exit(c12::child_deep_ops(d));
    }
    if id == "FIND-INDEX" {
        let si = spec::SpecIndex::get();
        let vi = spec::NVER - 1;
        let mut n = 0;
        for (t, ti) in si.types.iter().enumerate() {
            if si.depth[vi][t] == u16::MAX { continue; }
            for s in &ti.subs {
                if s.mask & (1 << vi) == 0 { continue; }
                let has_index = si.types[s.tid].subs.iter().any(|x| x.name == autosar_data_specification::ElementName::Index && x.mask & (1 << vi) != 0);
                if has_index {
                    if let Some((_, idx)) = ti.etype.find_sub_element(s.name, 1 << vi) {
                        let m = ti.etype.get_sub_element_multiplicity(&idx);
                        let path: Vec<String> = si.witness_path(vi, t).unwrap_or_default().iter().map(|(_, n)| n.to_string()).collect();
                        println!("{} / {} mult {:?} ordered {} named {} depth {}", path.join("/"), s.name, m, ti.etype.is_ordered(), s.etype.is_named(), path.len());
                        n += 1;
                    }
                }
            }
        }
        println!("{n}");
        return;
    }
    if id == "GRAMMAR" {
        // verif grammar <ELEMENT-NAME> <version index>: print the grammar of every type with that name
        let si = spec::SpecIndex::get();
        let vi: usize = args[3].parse().unwrap();
        let mut seen = std::collections::HashSet::new();
        for t in &si.types {
            for s in &t.subs {
                if s.name.to_str() == args[2] && seen.insert(s.tid) {
                    println!("type #{} {:?} mode {:?} reach {:#x}", s.tid, s.etype, s.etype.content_mode(), si.types[s.tid].reach_mask);
                    println!("{:#?}", si.grammar(s.tid, 1 << vi));
                }
            }
        }
        return;
    }
    if id == "PROBE19" {
        // verif probe19 <pattern index> strings...
        let pats = c19::patterns();
        let p = &pats[args[2].parse::<usize>().unwrap()];
        println!("{}", p.regex);
        for s in &args[3..] {
            println!("{:?} validator={} regex={}", s, (p.check_fn)(s.as_bytes()), p.dfas[0].accepts(s.as_bytes()));
        }
        return;
    }
    let seed: u64 = std::env::var("VERIF_SEED").ok().and_then(|s| s.trim().parse::<i64>().ok()).map(|v| v as u64).unwrap_or(0);
    if args[2] == "--minimize" {
        // greedy minimisation of a history case: drop operations while the same signature is still produced
        let text = std::fs::read_to_string(&args[3]).expect("read");
        let v: serde_json::Value = serde_json::from_str(&text).expect("json");
        let want = v["signature"].as_str().unwrap_or("").to_string();
        let mut case = if v.get("case").is_some() { v["case"].clone() } else { v.clone() };
        let sig_of = |case: &serde_json::Value| -> Option<String> {
            let ctx = Ctx::new(&id, Tier::Quick, 0, true);
            // silence: report() prints VIOLATION lines for unknown signatures; capture by reading ctx afterwards
            replay_dispatch(&ctx, &id, case);
            let v = ctx.violations.lock().unwrap();
            if let Some((f, _)) = v.first() {
                return Some(f.signature.clone());
            }
            let k = ctx.known_hits.lock().unwrap();
            k.keys().next().cloned()
        };
        let mut changed = true;
        while changed {
            changed = false;
            let n = case["ops"].as_array().map(|a| a.len()).unwrap_or(0);
            for i in 0..n {
                let mut c2 = case.clone();
                c2["ops"].as_array_mut().unwrap().remove(i);
                if sig_of(&c2).as_deref() == Some(want.as_str()) {
                    case = c2;
                    changed = true;
                    break;
                }
            }
        }
        let out = serde_json::json!({"property": id, "signature": want, "case": case});
        println!("{}", serde_json::to_string_pretty(&out).unwrap());
        return;
    }
    let (tier, replay) = if args[2] == "--replay" {
        if args.len() < 4 {
            usage();
        }
        (Tier::Quick, Some(args[3].clone()))
    } else {
        match args[2].as_str() {
            "quick" => (Tier::Quick, None),
            "thorough" => (Tier::Thorough, None),
            _ => usage(),
        }
    };
    let ctx = Ctx::new(&id, tier, seed, replay.is_some());
    if matches!(id.as_str(), "C01" | "C02" | "C08") {
        // termination of the loader is part of C02 (and a precondition of the other two): 30 s of CPU time for one call
        start_watchdog(&ctx, 30);
    }
    // run on a big stack: deep recursion in the code under test must not be confused with harness limits
    let code = std::thread::scope(|s| {
        std::thread::Builder::new()
            .stack_size(256 << 20)
            .spawn_scoped(s, || {
                if let Some(file) = &replay {
                    let text = std::fs::read_to_string(file).unwrap_or_else(|e| {
                        eprintln!("cannot read replay file {file}: {e}");
                        std::process::exit(2)
                    });
                    let v: serde_json::Value = serde_json::from_str(&text).unwrap_or_else(|e| {
                        eprintln!("replay file is not JSON: {e}");
                        std::process::exit(2)
                    });
                    let case = if v.get("case").is_some() { v["case"].clone() } else { v };
                    replay_dispatch(&ctx, &id, &case);
                } else {
                    run_regressions(&ctx, &id);
                    match id.as_str() {
                        "C01" => c01::run(&ctx),
                        "C02" => c02::run(&ctx),
                        "C08" => c08::run(&ctx),
                        "C20" => c20::run(&ctx),
                        "C03" => histprops::run(&ctx, histprops::Prop::C03),
                        "C04" => histprops::run(&ctx, histprops::Prop::C04),
                        "C05" => histprops::run(&ctx, histprops::Prop::C05),
                        "C10" => histprops::run(&ctx, histprops::Prop::C10),
                        "C11" => histprops::run(&ctx, histprops::Prop::C11),
                        "C12" => c12::run(&ctx),
                        "C06" => c06::run(&ctx),
                        "C14" => c14::run(&ctx),
                        "C07" => c07::run(&ctx),
                        "C13" => c13::run(&ctx),
                        "C09" => c09::run(&ctx),
                        "C15" => c15::run(&ctx, c15::Which::C15),
                        "C16" => c15::run(&ctx, c15::Which::C16),
                        "C17" => c17::run(&ctx),
                        "C18" => c18::run(&ctx),
                        "C19" => c19::run(&ctx),
                        _ => usage(),
                    }
                }
                ctx.finish()
            })
            .unwrap()
            .join()
            .unwrap_or(2)
    });
    std::process::exit(code);
}
