//! ADoc — abstract documents: specification-derived generation, rendering in many textual
//! styles, extraction from a loaded model. Independent of the crate's Element type.
#![allow(dead_code)]

use crate::rx::{Dfa, DotMode};
use crate::spec::*;
use autosar_data::{AutosarModel, CharacterData, Element, ElementContent};
use autosar_data_specification::*;
use serde_json::{json, Value};
use std::collections::HashMap;
use std::sync::{Mutex, OnceLock};

// ---------------------------------------------------------------------------------------------
// choice tape

pub struct Tape<'a> {
    t: &'a [u32],
    i: usize,
}
impl<'a> Tape<'a> {
    pub fn new(t: &'a [u32]) -> Self {
        Tape { t, i: 0 }
    }
    pub fn next(&mut self) -> u32 {
        let v = self.t.get(self.i).copied().unwrap_or(0);
        self.i += 1;
        v
    }
    /// monotone map to 0..n (0 stays 0, so shrinking the tape shrinks the choice)
    pub fn below(&mut self, n: usize) -> usize {
        if n <= 1 {
            self.next();
            return 0;
        }
        ((self.next() as u64 * n as u64) >> 32) as usize
    }
    /// true with probability p/256 (never when the tape is exhausted)
    pub fn chance(&mut self, p: u32) -> bool {
        (self.next() >> 24) >= 256 - p.min(256) && p > 0
    }
    pub fn exhausted(&self) -> bool {
        self.i >= self.t.len()
    }
    pub fn take(&mut self, n: usize) -> Vec<u32> {
        (0..n).map(|_| self.next()).collect()
    }
}

// ---------------------------------------------------------------------------------------------
// data

#[derive(Clone, Debug)]
pub enum AVal {
    Enum(EnumItem),
    Str(String),
    UInt(u64),
    Float(f64),
    /// verbatim text (defect injection only; never equal to anything loaded)
    Raw(String),
}

impl PartialEq for AVal {
    fn eq(&self, o: &AVal) -> bool {
        match (self, o) {
            (AVal::Enum(a), AVal::Enum(b)) => a == b,
            (AVal::Str(a), AVal::Str(b)) => a == b,
            (AVal::UInt(a), AVal::UInt(b)) => a == b,
            (AVal::Float(a), AVal::Float(b)) => (a.is_nan() && b.is_nan()) || a.to_bits() == b.to_bits(),
            _ => false,
        }
    }
}

impl AVal {
    pub fn from_cdata(c: &CharacterData) -> AVal {
        match c {
            CharacterData::Enum(e) => AVal::Enum(*e),
            CharacterData::String(s) => AVal::Str(s.clone()),
            CharacterData::UnsignedInteger(u) => AVal::UInt(*u),
            CharacterData::Float(f) => AVal::Float(*f),
        }
    }
    pub fn to_cdata(&self) -> CharacterData {
        match self {
            AVal::Enum(e) => CharacterData::Enum(*e),
            AVal::Str(s) => CharacterData::String(s.clone()),
            AVal::UInt(u) => CharacterData::UnsignedInteger(*u),
            AVal::Float(f) => CharacterData::Float(*f),
            AVal::Raw(s) => CharacterData::String(s.clone()),
        }
    }
    pub fn to_json(&self) -> Value {
        match self {
            AVal::Enum(e) => json!({"enum": e.to_str()}),
            AVal::Str(s) => json!(s),
            AVal::UInt(u) => json!({"uint": u}),
            AVal::Float(f) => json!({"float": format!("{:?}", f)}),
            AVal::Raw(s) => json!({"raw": s}),
        }
    }
}

#[derive(Clone, Debug, PartialEq)]
pub enum AContent {
    Elem(ANode),
    Text(AVal),
    /// verbatim markup (defect injection only)
    Raw(String),
}

#[derive(Clone, Debug, PartialEq)]
pub struct ANode {
    pub name: ElementName,
    pub etype: ElementType,
    pub attrs: Vec<(AttributeName, AVal)>,
    pub comment: Option<String>,
    pub content: Vec<AContent>,
    /// defect injection: tag name written instead of `name`
    pub raw_name: Option<String>,
    /// defect injection: extra attributes written verbatim (name, quoted value text)
    pub raw_attrs: Vec<(String, String)>,
}

impl ANode {
    pub fn new(name: ElementName, etype: ElementType) -> ANode {
        ANode { name, etype, attrs: vec![], comment: None, content: vec![], raw_name: None, raw_attrs: vec![] }
    }
    pub fn children(&self) -> impl Iterator<Item = &ANode> {
        self.content.iter().filter_map(|c| match c {
            AContent::Elem(e) => Some(e),
            _ => None,
        })
    }
    pub fn count(&self) -> usize {
        1 + self.children().map(|c| c.count()).sum::<usize>()
    }
    pub fn item_name(&self) -> Option<&str> {
        self.children().find(|c| c.name == ElementName::ShortName).and_then(|sn| match sn.content.first() {
            Some(AContent::Text(AVal::Str(s))) => Some(s.as_str()),
            _ => None,
        })
    }
    pub fn to_json(&self) -> Value {
        let mut m = serde_json::Map::new();
        m.insert("e".into(), json!(self.name.to_str()));
        if !self.attrs.is_empty() {
            m.insert("attrs".into(), Value::Array(self.attrs.iter().map(|(n, v)| json!([n.to_str(), v.to_json()])).collect()));
        }
        if let Some(c) = &self.comment {
            m.insert("comment".into(), json!(c));
        }
        if !self.content.is_empty() {
            m.insert(
                "content".into(),
                Value::Array(
                    self.content
                        .iter()
                        .map(|c| match c {
                            AContent::Elem(e) => e.to_json(),
                            AContent::Text(t) => json!({"text": t.to_json()}),
                            AContent::Raw(t) => json!({"raw": t}),
                        })
                        .collect(),
                ),
            );
        }
        Value::Object(m)
    }
    /// first difference between two trees, as a readable path
    pub fn diff(&self, other: &ANode, path: &str) -> Option<String> {
        let here = format!("{path}/{}", self.name);
        if self.name != other.name {
            return Some(format!("{here}: element name {} vs {}", self.name, other.name));
        }
        if self.etype != other.etype {
            return Some(format!("{here}: element type {:?} vs {:?}", self.etype, other.etype));
        }
        if self.attrs != other.attrs {
            return Some(format!("{here}: attributes {:?} vs {:?}", self.attrs, other.attrs));
        }
        if self.comment != other.comment {
            return Some(format!("{here}: comment {:?} vs {:?}", self.comment, other.comment));
        }
        if self.content.len() != other.content.len() {
            let f = |n: &ANode| n.content.iter().map(|c| match c { AContent::Elem(e) => e.name.to_string(), AContent::Text(t) => format!("{:?}", t), AContent::Raw(t) => format!("raw {:?}", t) }).collect::<Vec<_>>();
            return Some(format!("{here}: {} content items vs {}: {:?} vs {:?}", self.content.len(), other.content.len(), f(self), f(other)));
        }
        for (i, (a, b)) in self.content.iter().zip(other.content.iter()).enumerate() {
            match (a, b) {
                (AContent::Elem(x), AContent::Elem(y)) => {
                    if let Some(d) = x.diff(y, &format!("{here}[{i}]")) {
                        return Some(d);
                    }
                }
                (AContent::Text(x), AContent::Text(y)) => {
                    if x != y {
                        return Some(format!("{here}[{i}]: value {:?} vs {:?}", x, y));
                    }
                }
                _ => return Some(format!("{here}[{i}]: element vs text")),
            }
        }
        None
    }
}

#[derive(Clone, Debug, PartialEq)]
pub struct ADoc {
    pub version: AutosarVersion,
    pub standalone: Option<bool>,
    pub root: ANode,
}

// ---------------------------------------------------------------------------------------------
// pattern DFAs (oracle + member generation)

pub fn pattern_dfa(regex: &'static str) -> &'static Dfa {
    static CACHE: OnceLock<Mutex<HashMap<&'static str, &'static Dfa>>> = OnceLock::new();
    let m = CACHE.get_or_init(|| Mutex::new(HashMap::new()));
    let mut g = m.lock().unwrap();
    if let Some(d) = g.get(regex) {
        return d;
    }
    let d: &'static Dfa = Box::leak(Box::new(Dfa::compile(regex, DotMode::NoNlCr).expect("published regex compiles")));
    g.insert(regex, d);
    d
}

/// the three readings of '.' (All, NoNl, NoNlCr), cached
pub fn pattern_dfas3(regex: &'static str) -> &'static [Dfa; 3] {
    static CACHE: OnceLock<Mutex<HashMap<&'static str, &'static [Dfa; 3]>>> = OnceLock::new();
    let m = CACHE.get_or_init(|| Mutex::new(HashMap::new()));
    let mut g = m.lock().unwrap();
    if let Some(d) = g.get(regex) {
        return d;
    }
    let d: &'static [Dfa; 3] = Box::leak(Box::new([
        Dfa::compile(regex, DotMode::All).expect("regex"),
        Dfa::compile(regex, DotMode::NoNl).expect("regex"),
        Dfa::compile(regex, DotMode::NoNlCr).expect("regex"),
    ]));
    g.insert(regex, d);
    d
}

/// does one of the languages that a validator is known to over-accept (open C19 findings) contain s?
pub fn known_overaccepted(regex: &str, s: &[u8]) -> bool {
    static K: OnceLock<Vec<(&'static str, Dfa)>> = OnceLock::new();
    let k = K.get_or_init(|| crate::c19::KNOWN_IMPL.iter().map(|(r, imp, _)| (*r, Dfa::compile(imp, DotMode::All).expect("regex"))).collect());
    k.iter().any(|(r, d)| *r == regex && d.accepts(s))
}

/// plain alphabet preferred when a pattern class is large (no XML-escapable characters)
pub const PLAIN: &[u8] = b"abcxyzABCXYZ0123456789_-. ";
pub const RICH: &[u8] = b"ab09_-. &<>'\"#;";

// ---------------------------------------------------------------------------------------------
// generation

pub struct GenOpts {
    /// soft limit on the number of elements generated below the target
    pub budget: usize,
    /// probability (of 256) to include an optional sub element while budget remains
    pub p_optional: u32,
    /// probability to add an optional attribute
    pub p_attr: u32,
    /// probability of a comment on an element
    pub p_comment: u32,
    pub max_depth: usize,
}

impl Default for GenOpts {
    fn default() -> Self {
        GenOpts { budget: 30, p_optional: 110, p_attr: 90, p_comment: 24, max_depth: 12 }
    }
}

pub struct Gen<'a, 't> {
    pub si: &'static SpecIndex,
    pub vi: usize,
    pub version: AutosarVersion,
    pub tape: &'a mut Tape<'t>,
    pub opts: GenOpts,
    pub remaining: isize,
    pub name_counter: usize,
    /// number of times a value generator had to fall back (e.g. max_length)
    pub fallbacks: usize,
}

const STR_POOL: &[&str] = &[
    "a", "b", "Z", "0", "7", " ", " ", "&", "<", ">", "'", "\"", "ä", "€", "𝄞", "\n", "\t", "-", "_", "/", ";", "#", "x", "&amp;", "]]", "=", "%", "é", "\u{a0}",
];

impl<'a, 't> Gen<'a, 't> {
    pub fn new(version: AutosarVersion, tape: &'a mut Tape<'t>, opts: GenOpts) -> Self {
        let remaining = opts.budget as isize;
        Gen { si: SpecIndex::get(), vi: ver_index(version), version, tape, opts, remaining, name_counter: 0, fallbacks: 0 }
    }
    fn vbit(&self) -> u32 {
        1 << self.vi
    }

    pub fn gen_string(&mut self, preserve: bool, max_length: Option<usize>) -> String {
        let maxchars = match max_length {
            Some(m) => (m / 6).clamp(1, 12),
            None => 12,
        };
        let n = 1 + self.tape.below(maxchars);
        let mut s = String::new();
        for _ in 0..n {
            s.push_str(STR_POOL[self.tape.below(STR_POOL.len())]);
        }
        let is_ws = |c: char| c == ' ' || c == '\t' || c == '\n' || c == '\r';
        if !preserve {
            s = s.trim_matches(is_ws).to_string();
        }
        if s.chars().all(is_ws) {
            s = "a".to_string();
        }
        if let Some(m) = max_length {
            // the loader measures the raw (escaped) text; stay well below
            while s.len() * 6 > m.max(6) && s.chars().count() > 1 {
                s.pop();
            }
            if !preserve {
                s = s.trim_matches(is_ws).to_string();
                if s.is_empty() {
                    s = "a".into();
                }
            }
        }
        s
    }

    pub fn gen_pattern(&mut self, regex: &'static str, max_length: Option<usize>) -> String {
        let d = pattern_dfa(regex);
        let n = self.tape.below(10);
        for attempt in 0..4 {
            let len = if attempt == 0 { n } else { 0 };
            let cells = self.tape.take(len);
            let rich = cells.first().is_some_and(|c| c % 5 == 0);
            let m = d.member(&cells, if rich { RICH } else { PLAIN });
            if let Ok(s) = String::from_utf8(m) {
                let is_ws = |c: char| c == ' ' || c == '\t' || c == '\n' || c == '\r';
                let fits = max_length.is_none_or(|mx| s.len() <= mx);
                // a pattern value must survive trimming unchanged and must not be empty
                if fits && !s.is_empty() && s.trim_matches(is_ws) == s {
                    return s;
                }
            }
            self.fallbacks += 1;
        }
        // shortest member
        String::from_utf8(d.member(&[], PLAIN)).unwrap_or_default()
    }

    pub fn gen_uint(&mut self) -> u64 {
        match self.tape.below(8) {
            0 => 0,
            1 => 1,
            2 => u64::MAX,
            3 => u32::MAX as u64 + self.tape.below(3) as u64,
            4 => (1u64 << (self.tape.below(64))).wrapping_sub(self.tape.below(2) as u64),
            _ => ((self.tape.next() as u64) << 32) | self.tape.next() as u64,
        }
    }

    pub fn gen_float(&mut self) -> f64 {
        match self.tape.below(12) {
            0 => 0.0,
            1 => -0.0,
            2 => 1.0,
            3 => -1.5,
            4 => f64::INFINITY,
            5 => f64::NEG_INFINITY,
            6 => f64::NAN,
            7 => f64::from_bits(1 + self.tape.below(1000) as u64), // subnormal
            8 => f64::MAX,
            9 => f64::MIN_POSITIVE,
            10 => (self.tape.next() as f64) / 1000.0,
            _ => {
                let bits = ((self.tape.next() as u64) << 32) | self.tape.next() as u64;
                let f = f64::from_bits(bits);
                if f.is_nan() {
                    f64::NAN
                } else {
                    f
                }
            }
        }
    }

    pub fn gen_value(&mut self, spec: &'static CharacterDataSpec) -> Option<AVal> {
        Some(match spec {
            CharacterDataSpec::Enum { items } => {
                let valid: Vec<EnumItem> = items.iter().filter(|(_, m)| m & self.vbit() != 0).map(|(i, _)| *i).collect();
                if valid.is_empty() {
                    return None;
                }
                AVal::Enum(valid[self.tape.below(valid.len())])
            }
            CharacterDataSpec::Pattern { regex, max_length, .. } => AVal::Str(self.gen_pattern(regex, *max_length)),
            CharacterDataSpec::String { preserve_whitespace, max_length } => {
                let mut s = self.gen_string(*preserve_whitespace, *max_length);
                // white space at the ends of a trimmed value: only character references can express it in the text
                // (the renderer writes it that way); it must be loaded, written back and loaded again unchanged
                if !*preserve_whitespace && max_length.is_none() && self.tape.below(8) == 0 {
                    const WS: &[char] = &[' ', '\t', '\n'];
                    let k = self.tape.below(6);
                    if k % 2 == 0 {
                        s.insert(0, WS[k / 2]);
                    }
                    if k >= 2 {
                        s.push(WS[k % 3]);
                    }
                }
                AVal::Str(s)
            }
            CharacterDataSpec::UnsignedInteger => AVal::UInt(self.gen_uint()),
            CharacterDataSpec::Float => AVal::Float(self.gen_float()),
        })
    }

    fn gen_comment(&mut self) -> Option<String> {
        if self.tape.chance(self.opts.p_comment) {
            const C: &[&str] = &[" c ", "note", "a < b > c & d", " x- y ", "ä€", "line1\nline2", "", "<tag attr='1'>"];
            Some(C[self.tape.below(C.len())].to_string())
        } else {
            None
        }
    }

    fn gen_attrs(&mut self, tid: usize, node: &mut ANode) {
        let si = self.si;
        for a in &si.types[tid].attrs {
            if a.mask & self.vbit() == 0 {
                continue;
            }
            if a.required || self.tape.chance(self.opts.p_attr) {
                // attribute values: the loader trims them unless preserve; strings must not contain the quote problem (handled by render)
                if let Some(v) = self.gen_value(a.spec) {
                    if !node.attrs.iter().any(|(n, _)| *n == a.name) {
                        node.attrs.push((a.name, v));
                    }
                }
            }
        }
    }

    pub fn fresh_name(&mut self) -> String {
        self.name_counter += 1;
        const BASE: &[&str] = &["a", "a1", "a10", "a1b", "b", "pkg", "x9", "Name_"];
        // a base that ends in a digit gets a separator: "a1" + 3 and "a" + 13 must not give the same name
        let b = BASE[self.tape.below(BASE.len())];
        if b.ends_with(|c: char| c.is_ascii_digit()) {
            format!("{}_{}", b, self.name_counter)
        } else {
            format!("{}{}", b, self.name_counter)
        }
    }

    /// create a node of the given type with its mandatory parts (SHORT-NAME, required attributes)
    pub fn make_node(&mut self, name: ElementName, tid: usize, with_optional_attrs: bool) -> ANode {
        let si = self.si;
        let et = si.types[tid].etype;
        let mut node = ANode::new(name, et);
        if tid == 0 {
            return node; // AUTOSAR root: attributes are written by the renderer
        }
        if with_optional_attrs {
            self.gen_attrs(tid, &mut node);
        } else {
            let save = self.opts.p_attr;
            self.opts.p_attr = 0;
            self.gen_attrs(tid, &mut node);
            self.opts.p_attr = save;
        }
        if et.is_named_in_version(self.version) {
            if let Some((snt, _)) = et.find_sub_element(ElementName::ShortName, self.vbit()) {
                let mut sn = ANode::new(ElementName::ShortName, snt);
                let nm = self.fresh_name();
                sn.content.push(AContent::Text(AVal::Str(nm)));
                node.content.push(AContent::Elem(sn));
            }
        }
        node
    }

    /// fill a node (already holding its mandatory parts) with specification-valid content
    pub fn fill(&mut self, tid: usize, node: &mut ANode, depth: usize) {
        let si = self.si;
        let et = si.types[tid].etype;
        match et.content_mode() {
            ContentMode::Characters => {
                if let Some(spec) = et.chardata_spec() {
                    if let Some(v) = self.gen_value(spec) {
                        node.content.push(AContent::Text(v));
                    }
                }
            }
            ContentMode::Mixed => {
                // element names from the grammar (mixed types may still contain sequence groups,
                // e.g. a SHORT-NAME first), text chunks interleaved
                let mut names: Vec<ElementName> = vec![];
                if depth < self.opts.max_depth {
                    if let Some(g) = si.grammar(tid, self.vbit()) {
                        self.walk(&g, &mut names, true);
                    }
                }
                let spec = et.chardata_spec();
                let mut last_text = false;
                let mut items: Vec<Option<ElementName>> = names.into_iter().filter(|n| *n != ElementName::ShortName).map(Some).collect();
                let extra_texts = self.tape.below(3);
                for _ in 0..extra_texts {
                    let pos = self.tape.below(items.len() + 1);
                    items.insert(pos, None);
                }
                for it in items {
                    match it {
                        None => {
                            if !last_text {
                                if let Some(CharacterDataSpec::String { max_length, .. }) = spec {
                                    // text chunks of mixed content are trimmed on load
                                    let s = self.gen_string(false, *max_length);
                                    node.content.push(AContent::Text(AVal::Str(s)));
                                    last_text = true;
                                }
                            }
                        }
                        Some(n) => {
                            if let Some(child) = self.gen_child(tid, n, depth) {
                                node.content.push(AContent::Elem(child));
                                last_text = false;
                            }
                        }
                    }
                }
            }
            _ => {
                if depth >= self.opts.max_depth {
                    return;
                }
                let Some(g) = si.grammar(tid, self.vbit()) else {
                    return;
                };
                let mut names: Vec<ElementName> = vec![];
                self.walk(&g, &mut names, true);
                // own grammar matcher as a guard (e.g. named types whose top-level group is a choice)
                let mut all: Vec<ElementName> = node.children().map(|c| c.name).collect();
                all.extend(names.iter().copied());
                if !valid_content(&g, &all) {
                    self.fallbacks += 1;
                    names.clear();
                }
                for n in names {
                    if n == ElementName::ShortName {
                        continue; // already there
                    }
                    if let Some(child) = self.gen_child(tid, n, depth) {
                        node.content.push(AContent::Elem(child));
                    }
                }
            }
        }
    }

    /// choose a specification-valid sequence of child names from the grammar
    fn walk(&mut self, g: &GNode, out: &mut Vec<ElementName>, top: bool) {
        match g {
            GNode::Elem { name, mult, .. } => {
                if *name == ElementName::ShortName {
                    return;
                }
                if self.remaining > 0 && self.tape.chance(self.opts.p_optional) {
                    let n = if *mult == ElementMultiplicity::Any { 1 + self.tape.below(3) } else { 1 };
                    for _ in 0..n {
                        out.push(*name);
                        self.remaining -= 1;
                    }
                }
            }
            GNode::Group { mode, items } => match mode {
                ContentMode::Sequence => {
                    for it in items {
                        self.walk(it, out, false);
                    }
                }
                ContentMode::Choice => {
                    if !items.is_empty() && (top || self.tape.chance(160)) {
                        let i = self.tape.below(items.len());
                        self.walk(&items[i], out, false);
                    }
                }
                ContentMode::Bag | ContentMode::Mixed => {
                    let n = self.tape.below(4);
                    for _ in 0..n {
                        if items.is_empty() || self.remaining <= 0 {
                            break;
                        }
                        let i = self.tape.below(items.len());
                        // inside a bag everything may repeat: force inclusion
                        let save = self.opts.p_optional;
                        self.opts.p_optional = 256;
                        self.walk(&items[i], out, false);
                        self.opts.p_optional = save;
                    }
                }
                ContentMode::Characters => {}
            },
        }
    }

    pub fn gen_child(&mut self, parent_tid: usize, name: ElementName, depth: usize) -> Option<ANode> {
        let si = self.si;
        let pet = si.types[parent_tid].etype;
        let (ct, _) = pet.find_sub_element(name, self.vbit())?;
        let ctid = si.id_of(ct);
        let mut child = self.make_node(name, ctid, true);
        child.comment = self.gen_comment();
        self.fill(ctid, &mut child, depth + 1);
        Some(child)
    }

    /// a document containing an element of type `target` (reached by its witness path) with
    /// generated content below it
    pub fn gen_doc(&mut self, target: usize) -> Option<ADoc> {
        let si = self.si;
        let path = si.witness_path(self.vi, target)?;
        let mut root = ANode::new(ElementName::Autosar, ElementType::ROOT);
        // build nested nodes along the path
        fn build(g: &mut Gen, path: &[(usize, ElementName)], i: usize, parent: &mut ANode) {
            let (tid, name) = path[i];
            let last = i + 1 == path.len();
            let mut node = g.make_node(name, tid, last);
            if last {
                node.comment = g.gen_comment();
                g.fill(tid, &mut node, 0);
            } else {
                if path[i + 1].1 == ElementName::ShortName {
                    // the target is the SHORT-NAME itself: replace the automatically created one
                    node.content.retain(|c| !matches!(c, AContent::Elem(e) if e.name == ElementName::ShortName));
                }
                build(g, path, i + 1, &mut node);
            }
            parent.content.push(AContent::Elem(node));
        }
        if !path.is_empty() {
            build(self, &path, 0, &mut root);
        }
        root.comment = self.gen_comment();
        let standalone = match self.tape.below(6) {
            1 => Some(true),
            2 => Some(false),
            _ => None,
        };
        Some(ADoc { version: self.version, standalone, root })
    }
}

// ---------------------------------------------------------------------------------------------
// rendering

#[derive(Clone, Debug, Default)]
pub struct RenderFlags {
    pub escapes: bool,
    pub charrefs: bool,
    pub comments: bool,
    pub single_quotes: bool,
    pub padding: bool,
    pub mixed: bool,
    pub nonstring: bool,
    pub pis: bool,
    pub bom: bool,
    pub crlf: bool,
}

pub struct Renderer<'a, 't> {
    pub style: &'a mut Tape<'t>,
    pub out: Vec<u8>,
    pub flags: RenderFlags,
    /// canonical = exactly the library's own layout choices are NOT assumed; plain style: "\n" + 2 spaces, double quotes, named entities
    pub plain: bool,
    nl: &'static str,
    /// white space at the ends of the value being written must be written as character references
    edge_refs: bool,
}

fn is_xml_ws(c: char) -> bool {
    c == ' ' || c == '\t' || c == '\n' || c == '\r'
}

impl<'a, 't> Renderer<'a, 't> {
    pub fn new(style: &'a mut Tape<'t>, plain: bool) -> Self {
        Renderer { style, out: vec![], flags: RenderFlags::default(), plain, nl: "\n", edge_refs: false }
    }

    fn push(&mut self, s: &str) {
        self.out.extend_from_slice(s.as_bytes());
    }

    fn escape_into(&mut self, s: &str, in_attr: Option<char>, pattern: bool) {
        let last = s.chars().count().saturating_sub(1);
        for (ci, c) in s.chars().enumerate() {
            if self.edge_refs && is_xml_ws(c) && (ci == 0 || ci == last) {
                // white space at the ends of a value that the loader trims: must be a character reference
                self.flags.charrefs = true;
                self.flags.escapes = true;
                let t = if self.plain || self.style.below(2) == 0 { format!("&#{};", c as u32) } else { format!("&#x{:x};", c as u32) };
                self.push(&t);
                continue;
            }
            let must = match c {
                '&' | '<' => true,
                '>' => in_attr.is_some(), // raw '>' inside a tag would end it for this lexer
                '"' => in_attr == Some('"'),
                '\'' => in_attr == Some('\''),
                _ => false,
            };
            let optional = matches!(c, '>' | '"' | '\'');
            let named = match c {
                '&' => "&amp;",
                '<' => "&lt;",
                '>' => "&gt;",
                '"' => "&quot;",
                '\'' => "&apos;",
                _ => "",
            };
            let how = if self.plain { 0 } else { self.style.below(16) };
            if must || (optional && how < 8) {
                self.flags.escapes = true;
                match how % 4 {
                    1 => {
                        self.flags.charrefs = true;
                        let t = format!("&#{};", c as u32);
                        self.push(&t);
                    }
                    2 => {
                        self.flags.charrefs = true;
                        let t = if how >= 8 { format!("&#x{:X};", c as u32) } else { format!("&#x{:x};", c as u32) };
                        self.push(&t);
                    }
                    _ => self.push(named),
                }
            } else if !self.plain && how == 15 && !is_xml_ws(c) && c != ']' && !pattern {
                // (pattern values are validated on the raw text, so only the mandatory escapes are used there)
                // any character may be written as a character reference
                self.flags.charrefs = true;
                let t = format!("&#x{:x};", c as u32);
                self.push(&t);
            } else {
                let mut b = [0u8; 4];
                self.push(c.encode_utf8(&mut b));
            }
        }
    }

    fn value_text(&mut self, v: &AVal, in_attr: Option<char>, pattern: bool) {
        match v {
            AVal::Enum(e) => {
                self.flags.nonstring = true;
                self.push(e.to_str())
            }
            AVal::Str(s) => self.escape_into(s, in_attr, pattern),
            AVal::Raw(s) => self.push(s),
            AVal::UInt(u) => {
                self.flags.nonstring = true;
                let how = if self.plain { 0 } else { self.style.below(8) };
                let t = match how {
                    1 => format!("+{u}"),
                    2 => format!("00{u}"),
                    _ => format!("{u}"),
                };
                self.push(&t);
            }
            AVal::Float(f) => {
                self.flags.nonstring = true;
                let how = if self.plain { 0 } else { self.style.below(8) };
                let t = if f.is_nan() {
                    ["NaN", "nan", "NAN"][how % 3].to_string()
                } else if f.is_infinite() {
                    let body = ["inf", "INF", "Infinity", "infinity"][how % 4];
                    if *f < 0.0 {
                        format!("-{body}")
                    } else if how >= 4 {
                        format!("+{body}")
                    } else {
                        body.to_string()
                    }
                } else {
                    match how {
                        1 => format!("{:e}", f),
                        2 => format!("{:E}", f),
                        3 if *f >= 0.0 && !f.is_sign_negative() => format!("+{}", f),
                        _ => format!("{}", f),
                    }
                };
                self.push(&t);
            }
        }
    }

    fn pad(&mut self) {
        if self.plain {
            return;
        }
        match self.style.below(10) {
            0 => {
                self.flags.padding = true;
                self.push(" ")
            }
            1 => {
                self.flags.padding = true;
                self.push("\n\t ")
            }
            2 => {
                self.flags.padding = true;
                let nl = self.nl;
                self.push(nl);
                self.push("  ")
            }
            _ => {}
        }
    }

    fn between(&mut self, indent: usize) {
        // whitespace between tags
        let how = if self.plain { 0 } else { self.style.below(8) };
        match how {
            0..=4 => {
                let nl = self.nl;
                self.push(nl);
                for _ in 0..indent {
                    self.push("  ");
                }
            }
            5 => self.push(" "),
            6 => self.push("\t\n"),
            _ => {}
        }
        if !self.plain && self.style.chance(10) {
            self.flags.pis = true;
            self.push("<?pi some data?>");
            let nl = self.nl;
            self.push(nl);
        }
    }

    fn comment(&mut self, c: &str) {
        self.flags.comments = true;
        self.push("<!--");
        self.push(c);
        self.push("-->");
    }

    fn attrs(&mut self, attrs: &[(AttributeName, AVal)], spec_of: &dyn Fn(AttributeName) -> Option<&'static CharacterDataSpec>) {
        for (n, v) in attrs {
            let sep = if self.plain { 0 } else { self.style.below(6) };
            self.push(match sep {
                1 => "  ",
                2 => "\n ",
                3 => "\t",
                _ => " ",
            });
            self.push(n.to_str());
            let q = if !self.plain && self.style.chance(90) {
                self.flags.single_quotes = true;
                '\''
            } else {
                '"'
            };
            self.out.push(b'=');
            self.out.push(q as u8);
            let preserve = matches!(spec_of(*n), Some(CharacterDataSpec::String { preserve_whitespace: true, .. }));
            let pattern = matches!(spec_of(*n), Some(CharacterDataSpec::Pattern { .. }));
            if !preserve {
                self.pad_attr();
            }
            self.edge_refs = !preserve;
            self.value_text(v, Some(q), pattern);
            self.edge_refs = false;
            if !preserve {
                self.pad_attr();
            }
            self.out.push(q as u8);
        }
    }

    fn pad_attr(&mut self) {
        if !self.plain && self.style.chance(20) {
            self.flags.padding = true;
            self.push(" ");
        }
    }

    pub fn node(&mut self, n: &ANode, indent: usize, inline: bool) {
        if let Some(c) = &n.comment {
            if !inline {
                self.between(indent);
            }
            // an earlier comment that is replaced by the attached one
            if !self.plain && self.style.chance(40) {
                self.comment(" superseded ");
                if !inline {
                    self.between(indent);
                }
            }
            self.comment(c);
        }
        if !inline {
            self.between(indent);
        }
        self.out.push(b'<');
        let tag: String = n.raw_name.clone().unwrap_or_else(|| n.name.to_str().to_string());
        self.push(&tag);
        let et = n.etype;
        self.attrs(&n.attrs, &|a| et.find_attribute_spec(a).map(|s| s.spec));
        for (rn, rv) in &n.raw_attrs {
            self.push(" ");
            self.push(rn);
            self.push("=\"");
            self.push(rv);
            self.push("\"");
        }
        if !self.plain && self.style.chance(30) {
            self.push(" ");
        }
        if n.content.is_empty() {
            if self.plain || self.style.chance(170) {
                self.push("/>");
            } else {
                self.push("></");
                self.push(&tag);
                self.push(">");
            }
            return;
        }
        self.push(">");
        let mode = et.content_mode();
        match mode {
            ContentMode::Characters => {
                let preserve = matches!(et.chardata_spec(), Some(CharacterDataSpec::String { preserve_whitespace: true, .. }));
                let pattern = matches!(et.chardata_spec(), Some(CharacterDataSpec::Pattern { .. }));
                for c in &n.content {
                    match c {
                        AContent::Text(v) => {
                            if !preserve {
                                self.pad();
                            }
                            self.edge_refs = !preserve;
                            self.value_text(v, None, pattern);
                            self.edge_refs = false;
                            if !preserve {
                                self.pad();
                            }
                        }
                        AContent::Raw(r) => self.push(r),
                        AContent::Elem(e) => self.node(e, indent + 1, true),
                    }
                }
            }
            ContentMode::Mixed => {
                self.flags.mixed = true;
                for c in &n.content {
                    match c {
                        AContent::Text(v) => {
                            self.pad();
                            self.value_text(v, None, false);
                            self.pad();
                        }
                        AContent::Elem(e) => self.node(e, indent + 1, true),
                        AContent::Raw(r) => self.push(r),
                    }
                }
            }
            _ => {
                for c in &n.content {
                    match c {
                        AContent::Elem(e) => self.node(e, indent + 1, false),
                        AContent::Raw(r) => self.push(r),
                        AContent::Text(v) => self.value_text(v, None, false),
                    }
                }
                if !self.plain && self.style.chance(12) {
                    // unattached comment before the closing tag: vanishes
                    self.between(indent + 1);
                    self.comment(" unattached ");
                }
                self.between(indent);
            }
        }
        self.push("</");
        self.push(&tag);
        // note: no whitespace before '>' of an end tag; the loader rejects "</X >" (outside C01's domain)
        self.push(">");
    }

    pub fn doc(&mut self, d: &ADoc) {
        if !self.plain {
            if self.style.chance(24) {
                self.flags.bom = true;
                self.out.extend_from_slice(&[0xEF, 0xBB, 0xBF]);
            }
            if self.style.chance(40) {
                self.flags.crlf = true;
                self.nl = "\r\n";
            }
        }
        let q = if !self.plain && self.style.chance(50) { '\'' } else { '"' };
        let enc = if self.plain { "utf-8" } else { ["utf-8", "UTF-8", "utf8", "UTF8"][self.style.below(4)] };
        let mut hdr = format!("<?xml version={q}1.0{q} encoding={q}{enc}{q}");
        match d.standalone {
            Some(true) => hdr.push_str(&format!(" standalone={q}yes{q}")),
            Some(false) => hdr.push_str(&format!(" standalone={q}no{q}")),
            None => {}
        }
        hdr.push_str("?>");
        self.push(&hdr);
        if let Some(c) = &d.root.comment {
            let nl = self.nl;
            self.push(nl);
            self.comment(c);
        }
        let nl = self.nl;
        self.push(nl);
        let xsd = if !self.plain && self.style.chance(30) { d.version.filename().replacen("AUTOSAR", "autosar", 1) } else { d.version.filename().to_string() };
        let mut parts = vec![
            format!("xsi:schemaLocation=\"http://autosar.org/schema/r4.0 {xsd}\""),
            "xmlns=\"http://autosar.org/schema/r4.0\"".to_string(),
            "xmlns:xsi=\"http://www.w3.org/2001/XMLSchema-instance\"".to_string(),
        ];
        if !self.plain {
            let r = self.style.below(6);
            parts.rotate_left(r % 3);
            if r >= 3 {
                parts.swap(0, 1);
            }
        }
        self.push("<AUTOSAR");
        for p in &parts {
            self.push(" ");
            self.push(p);
        }
        if d.root.content.is_empty() && !self.plain && self.style.chance(128) {
            self.push("/>");
        } else {
            self.push(">");
            for c in &d.root.content {
                match c {
                    AContent::Elem(e) => self.node(e, 1, false),
                    AContent::Raw(r) => self.push(r),
                    AContent::Text(v) => self.value_text(v, None, false),
                }
            }
            self.between(0);
            self.push("</AUTOSAR>");
        }
        if !self.plain && self.style.chance(128) {
            let nl = self.nl;
            self.push(nl);
        }
    }
}

pub fn render(d: &ADoc, style: &[u32], plain: bool) -> (Vec<u8>, RenderFlags) {
    let mut t = Tape::new(style);
    let mut r = Renderer::new(&mut t, plain);
    r.doc(d);
    (r.out, r.flags)
}

// ---------------------------------------------------------------------------------------------
// extraction

pub fn extract_element(e: &Element) -> ANode {
    let mut n = ANode::new(e.element_name(), e.element_type());
    for a in e.attributes() {
        n.attrs.push((a.attrname, AVal::from_cdata(&a.content)));
    }
    n.comment = e.comment();
    for c in e.content() {
        match c {
            ElementContent::Element(s) => n.content.push(AContent::Elem(extract_element(&s))),
            ElementContent::CharacterData(cd) => n.content.push(AContent::Text(AVal::from_cdata(&cd))),
        }
    }
    n
}

/// extract the whole model; the root's own attributes (xmlns etc.) are dropped: they are
/// compared through file.version()
pub fn extract_model(m: &AutosarModel) -> ANode {
    let mut r = extract_element(&m.root_element());
    r.attrs.clear();
    r
}

pub fn hdr(version: AutosarVersion) -> String {
    format!(
        "<?xml version=\"1.0\" encoding=\"utf-8\"?>\n<AUTOSAR xsi:schemaLocation=\"http://autosar.org/schema/r4.0 {}\" xmlns=\"http://autosar.org/schema/r4.0\" xmlns:xsi=\"http://www.w3.org/2001/XMLSchema-instance\">",
        version.filename()
    )
}
