//! SpecIndex — the specification as data, obtained through the PUBLIC API of
//! autosar-data-specification only (graph walk from ElementType::ROOT).
#![allow(dead_code)]

use autosar_data_specification::*;
use std::collections::{BTreeMap, BTreeSet, HashMap, VecDeque};
use std::sync::OnceLock;

pub const NVER: usize = 21;

pub fn versions() -> &'static [AutosarVersion] {
    static V: OnceLock<Vec<AutosarVersion>> = OnceLock::new();
    V.get_or_init(|| (0..32).filter_map(|i| AutosarVersion::from_val(1u32 << i)).collect())
}

pub fn ver_index(v: AutosarVersion) -> usize {
    (v as u32).trailing_zeros() as usize
}

pub const ALL_VERSIONS_MASK: u32 = (1 << NVER) - 1;

#[derive(Clone, Debug)]
pub struct SubInfo {
    pub name: ElementName,
    pub etype: ElementType,
    pub tid: usize,
    pub mask: u32,
    pub named_mask: u32,
}

#[derive(Clone)]
pub struct AttrInfo {
    pub name: AttributeName,
    pub spec: &'static CharacterDataSpec,
    pub required: bool,
    pub mask: u32,
}

/// one node of the reconstructed content grammar of an element type in one version
#[derive(Clone, Debug)]
pub enum GNode {
    Elem { name: ElementName, etype: ElementType, mult: ElementMultiplicity, indices: Vec<usize> },
    Group { mode: ContentMode, items: Vec<GNode> },
}

pub struct TypeInfo {
    pub etype: ElementType,
    pub subs: Vec<SubInfo>,
    pub attrs: Vec<AttrInfo>,
    /// versions in which this type is reachable from the root
    pub reach_mask: u32,
}

pub struct SpecIndex {
    pub types: Vec<TypeInfo>,
    pub tid: HashMap<ElementType, usize>,
    /// per version index: per type: (parent tid, name) on a shortest path from the root
    pub witness: Vec<Vec<Option<(usize, ElementName)>>>,
    pub depth: Vec<Vec<u16>>,
    pub element_names: Vec<ElementName>,
    pub attribute_names: Vec<AttributeName>,
    pub enum_items: Vec<EnumItem>,
    /// distinct (check_fn address, regex text, max_length) pairs
    pub patterns: Vec<(fn(&[u8]) -> bool, &'static str, Option<usize>)>,
}

pub fn spec_key(s: &'static CharacterDataSpec) -> usize {
    s as *const CharacterDataSpec as usize
}

impl SpecIndex {
    pub fn get() -> &'static SpecIndex {
        static S: OnceLock<SpecIndex> = OnceLock::new();
        S.get_or_init(SpecIndex::build)
    }

    fn build() -> SpecIndex {
        let mut types: Vec<TypeInfo> = vec![];
        let mut tid: HashMap<ElementType, usize> = HashMap::new();
        let mut queue = VecDeque::new();
        tid.insert(ElementType::ROOT, 0);
        types.push(TypeInfo { etype: ElementType::ROOT, subs: vec![], attrs: vec![], reach_mask: 0 });
        queue.push_back(0usize);
        while let Some(t) = queue.pop_front() {
            let et = types[t].etype;
            let mut subs = vec![];
            for (name, st, mask, named_mask) in et.sub_element_spec_iter() {
                let id = if let Some(id) = tid.get(&st) {
                    *id
                } else {
                    let id = types.len();
                    tid.insert(st, id);
                    types.push(TypeInfo { etype: st, subs: vec![], attrs: vec![], reach_mask: 0 });
                    queue.push_back(id);
                    id
                };
                subs.push(SubInfo { name, etype: st, tid: id, mask, named_mask });
            }
            let mut attrs = vec![];
            for (name, spec, required) in et.attribute_spec_iter() {
                let mask = et.find_attribute_spec(name).map(|a| a.version).unwrap_or(0);
                attrs.push(AttrInfo { name, spec, required, mask });
            }
            types[t].subs = subs;
            types[t].attrs = attrs;
        }
        // per-version BFS for witness paths
        let n = types.len();
        let mut witness = vec![vec![None; n]; NVER];
        let mut depth = vec![vec![u16::MAX; n]; NVER];
        for vi in 0..NVER {
            let vbit = 1u32 << vi;
            let mut q = VecDeque::new();
            depth[vi][0] = 0;
            q.push_back(0usize);
            while let Some(t) = q.pop_front() {
                for s in &types[t].subs {
                    if s.mask & vbit != 0 && depth[vi][s.tid] == u16::MAX {
                        // the library finds the FIRST sub element with this name valid in the
                        // version; only use this edge if that is the type we mean
                        if let Some((ft, _)) = types[t].etype.find_sub_element(s.name, vbit) {
                            if ft != s.etype {
                                continue;
                            }
                        } else {
                            continue;
                        }
                        // a named element whose top-level group is a choice cannot hold anything
                        // beside its SHORT-NAME in a strictly valid document
                        if s.name != ElementName::ShortName
                            && types[t].etype.content_mode() == ContentMode::Choice
                            && types[t].etype.is_named_in_version(versions()[vi])
                        {
                            continue;
                        }
                        depth[vi][s.tid] = depth[vi][t] + 1;
                        witness[vi][s.tid] = Some((t, s.name));
                        q.push_back(s.tid);
                    }
                }
            }
            for t in 0..n {
                if depth[vi][t] != u16::MAX {
                    types[t].reach_mask |= vbit;
                }
            }
        }
        let mut names = BTreeSet::new();
        names.insert(ElementName::Autosar as u16);
        let mut anames = BTreeMap::new();
        let mut items = BTreeMap::new();
        let mut patterns: Vec<(fn(&[u8]) -> bool, &'static str, Option<usize>)> = vec![];
        let mut name_of: HashMap<u16, ElementName> = HashMap::new();
        name_of.insert(ElementName::Autosar as u16, ElementName::Autosar);
        let mut see_spec = |spec: &'static CharacterDataSpec, items: &mut BTreeMap<u16, EnumItem>| match spec {
            CharacterDataSpec::Enum { items: its } => {
                for (it, _) in *its {
                    items.insert(*it as u16, *it);
                }
            }
            CharacterDataSpec::Pattern { check_fn, regex, max_length } => {
                if !patterns.iter().any(|(f, r, m)| (*f as usize) == (*check_fn as usize) && r == regex && m == max_length) {
                    patterns.push((*check_fn, regex, *max_length));
                }
            }
            _ => {}
        };
        for t in &types {
            for s in &t.subs {
                names.insert(s.name as u16);
                name_of.insert(s.name as u16, s.name);
            }
            for a in &t.attrs {
                anames.insert(a.name as u16, a.name);
                see_spec(a.spec, &mut items);
            }
            if let Some(spec) = t.etype.chardata_spec() {
                see_spec(spec, &mut items);
            }
        }
        patterns.sort_by(|a, b| a.1.cmp(b.1).then(a.2.cmp(&b.2)));
        SpecIndex {
            element_names: names.iter().map(|n| name_of[n]).collect(),
            attribute_names: anames.values().copied().collect(),
            enum_items: items.values().copied().collect(),
            patterns,
            types,
            tid,
            witness,
            depth,
        }
    }

    pub fn id_of(&self, t: ElementType) -> usize {
        self.tid[&t]
    }

    /// names from the root (exclusive) down to the type (inclusive) in version index vi
    pub fn witness_path(&self, vi: usize, tid: usize) -> Option<Vec<(usize, ElementName)>> {
        if self.depth[vi][tid] == u16::MAX {
            return None;
        }
        let mut out = vec![];
        let mut cur = tid;
        while let Some((p, name)) = self.witness[vi][cur] {
            out.push((cur, name));
            cur = p;
        }
        out.reverse();
        Some(out)
    }

    /// the content grammar of a type in one version, reconstructed from find_sub_element's index
    /// vectors and get_sub_element_container_mode. Returns None when the flattened listing has
    /// the same name twice in this version (only the first is addressable through the API).
    pub fn grammar(&self, tid: usize, vbit: u32) -> Option<GNode> {
        let ti = &self.types[tid];
        let et = ti.etype;
        #[derive(Default)]
        struct Trie {
            children: BTreeMap<usize, Trie>,
            leaf: Option<(ElementName, ElementType, ElementMultiplicity, Vec<usize>)>,
        }
        let mut root = Trie::default();
        let mut seen = BTreeSet::new();
        for s in &ti.subs {
            if s.mask & vbit == 0 {
                continue;
            }
            if !seen.insert(s.name as u16) {
                return None;
            }
            let (ft, idx) = et.find_sub_element(s.name, vbit)?;
            if ft != s.etype {
                return None;
            }
            let mult = et.get_sub_element_multiplicity(&idx)?;
            let mut node = &mut root;
            for i in &idx {
                node = node.children.entry(*i).or_default();
            }
            node.leaf = Some((s.name, ft, mult, idx));
        }
        fn conv(et: ElementType, t: &Trie, prefix: &mut Vec<usize>) -> GNode {
            if let Some((name, etype, mult, indices)) = &t.leaf {
                return GNode::Elem { name: *name, etype: *etype, mult: *mult, indices: indices.clone() };
            }
            // group: mode = container mode of any child
            let mode = if prefix.is_empty() {
                et.content_mode()
            } else {
                let mut p = prefix.clone();
                p.push(*t.children.keys().next().unwrap_or(&0));
                et.get_sub_element_container_mode(&p)
            };
            let mut items = vec![];
            for (i, c) in &t.children {
                prefix.push(*i);
                items.push(conv(et, c, prefix));
                prefix.pop();
            }
            GNode::Group { mode, items }
        }
        Some(conv(et, &root, &mut vec![]))
    }
}

/// Does the sequence of child names satisfy the content grammar? Own recursive matcher (no code
/// shared with the editor). All items are optional; multiplicity and version come from the tables.
pub fn valid_content(g: &GNode, names: &[ElementName]) -> bool {
    // returns the set of positions reachable after matching g starting at each start position
    fn m(g: &GNode, names: &[ElementName], start: usize, out: &mut BTreeSet<usize>) {
        match g {
            GNode::Elem { name, mult, .. } => {
                out.insert(start); // optional
                let mut p = start;
                let max = if *mult == ElementMultiplicity::Any { usize::MAX } else { 1 };
                let mut n = 0;
                while p < names.len() && names[p] == *name && n < max {
                    p += 1;
                    n += 1;
                    out.insert(p);
                }
            }
            GNode::Group { mode, items } => match mode {
                ContentMode::Sequence => {
                    let mut cur: BTreeSet<usize> = BTreeSet::new();
                    cur.insert(start);
                    for it in items {
                        let mut nxt = BTreeSet::new();
                        for s in &cur {
                            m(it, names, *s, &mut nxt);
                        }
                        cur = nxt;
                    }
                    out.extend(cur);
                }
                ContentMode::Choice => {
                    out.insert(start);
                    for it in items {
                        m(it, names, start, out);
                    }
                }
                ContentMode::Bag | ContentMode::Mixed => {
                    // any item any number of times in any order: closure
                    let mut reach: BTreeSet<usize> = BTreeSet::new();
                    let mut work = vec![start];
                    reach.insert(start);
                    while let Some(s) = work.pop() {
                        for it in items {
                            let mut nxt = BTreeSet::new();
                            m(it, names, s, &mut nxt);
                            for p in nxt {
                                if reach.insert(p) {
                                    work.push(p);
                                }
                            }
                        }
                    }
                    out.extend(reach);
                }
                ContentMode::Characters => {
                    out.insert(start);
                }
            },
        }
    }
    let mut out = BTreeSet::new();
    m(g, names, 0, &mut out);
    out.contains(&names.len())
}
