//! C07 — what the editing API builds conforms to the specification the loader enforces.
use crate::adoc::*;
use crate::audit::*;
use crate::engine::*;
use crate::hist::*;
use crate::histprops::HistCase;
use crate::spec::*;
use autosar_data::*;
use autosar_data_specification::{CharacterDataSpec, ContentMode};
use proptest::prelude::*;
use serde_json::{json, Value};

// ---------------------------------------------------------------------------------------------
// (a) insertion range exactness, type x version sweep

#[derive(Clone, Debug)]
pub struct RangeCase {
    pub vi: usize,
    pub tid: usize,
    pub grow: Vec<u32>,
}

impl RangeCase {
    fn to_json(&self) -> Value {
        json!({"kind": "range", "vi": self.vi, "tid": self.tid, "grow": self.grow})
    }
    fn from_json(v: &Value) -> Option<RangeCase> {
        Some(RangeCase { vi: v["vi"].as_u64()? as usize, tid: v["tid"].as_u64()? as usize, grow: v["grow"].as_array()?.iter().map(|x| x.as_u64().unwrap_or(0) as u32).collect() })
    }
}

fn child_names(e: &Element) -> Vec<Option<ElementName>> {
    e.content().map(|c| c.unwrap_element().map(|k| k.element_name())).collect()
}

fn create_at(e: &Element, name: ElementName, named: bool, pos: Option<usize>, counter: &mut usize) -> Result<Element, AutosarDataError> {
    *counter += 1;
    let nm = format!("gen{}", *counter);
    match (named, pos) {
        (false, None) => e.create_sub_element(name),
        (false, Some(p)) => e.create_sub_element_at(name, p),
        (true, None) => e.create_named_sub_element(name, &nm),
        (true, Some(p)) => e.create_named_sub_element_at(name, &nm, p),
    }
}

pub fn run_range_case(c: &RangeCase, st: &mut Stats) -> Result<(), Failure> {
    let si = SpecIndex::get();
    let version = versions()[c.vi];
    let vbit = 1u32 << c.vi;
    let _audit = Audit::install();
    let model = AutosarModel::new();
    let _file = model.create_file("r.arxml", version).map_err(|e| Failure::new("harness", format!("{e}"), c.to_json()))?;
    let mut counter = 0usize;
    let Some(elem) = crate::c20::api_witness(&model, c.vi, c.tid, &mut counter) else {
        st.class("witness-not-buildable");
        return Ok(());
    };
    let et = elem.element_type();
    if et != si.types[c.tid].etype {
        st.class("witness-type-differs");
        return Ok(());
    }
    if matches!(et.content_mode(), ContentMode::Characters) {
        return Ok(());
    }
    let Some(g) = si.grammar(c.tid, vbit) else {
        st.class("grammar-ambiguous(skipped)");
        return Ok(());
    };
    let subs: Vec<&SubInfo> = si.types[c.tid].subs.iter().filter(|s| s.mask & vbit != 0).collect();
    if subs.is_empty() {
        return Ok(());
    }
    let fail = |sig: &str, msg: String, e: &Element| {
        let kids: Vec<String> = child_names(e).iter().map(|n| n.map(|x| x.to_string()).unwrap_or("#text".into())).collect();
        Failure::new(sig, format!("{msg}\nelement {} (type {:?}) in {:?}, current content: {:?}", e.xml_path(), e.element_type(), version, kids), c.to_json())
    };
    // grow the element by random successful creations
    for r in &c.grow {
        let s = subs[pick(subs.len(), *r)];
        if s.name == ElementName::ShortName {
            continue;
        }
        let named = s.etype.is_named_in_version(version);
        let pos = if r % 3 == 0 {
            match elem.calc_element_insert_range(s.name, version) {
                Ok((lo, hi)) => Some(lo + pick(hi - lo + 1, r.rotate_left(11))),
                Err(_) => None,
            }
        } else {
            None
        };
        let _ = create_at(&elem, s.name, named, pos, &mut counter);
        if et.content_mode() == ContentMode::Mixed && r % 5 == 0 {
            let n = elem.content_item_count();
            let _ = elem.insert_character_content_item("txt", pick(n + 1, r.rotate_left(5)));
        }
    }
    let content = child_names(&elem);
    let names_only: Vec<ElementName> = content.iter().filter_map(|x| *x).collect();
    if !valid_content(&g, &names_only) {
        return Err(fail("editor-built-invalid-order", "the element built by successful create calls violates the specification order (own grammar matcher)".into(), &elem));
    }
    let len = content.len();
    if len >= 2 {
        st.nontrivial(mix(mix(c.vi as u64, c.tid as u64), fnv(format!("{:?}", names_only).as_bytes())));
    }
    let allowed: std::collections::HashMap<ElementName, bool> = elem.list_valid_sub_elements().into_iter().map(|v| (v.element_name, v.is_allowed)).collect();
    let mut seen = std::collections::HashSet::new();
    for s in &subs {
        if !seen.insert(s.name) {
            continue;
        }
        st.eval();
        let n = s.name;
        let named = s.etype.is_named_in_version(version);
        // brute force: which content positions keep the specification order?
        let ok_pos: Vec<usize> = (0..=len)
            .filter(|p| {
                let before = content[..*p].iter().filter(|x| x.is_some()).count();
                let mut v = names_only.clone();
                v.insert(before, n);
                valid_content(&g, &v)
            })
            .collect();
        let range = elem.calc_element_insert_range(n, version);
        match (&range, ok_pos.is_empty()) {
            (Err(_), true) => {}
            (Err(e), false) => {
                return Err(fail("range:rejects-insertable-element", format!("calc_element_insert_range({n}) = Err({e}) but inserting at content positions {:?} keeps the specification order", ok_pos), &elem));
            }
            (Ok((lo, hi)), true) => {
                return Err(fail("range:allows-uninsertable-element", format!("calc_element_insert_range({n}) = Ok(({lo}, {hi})) but no position keeps the specification order"), &elem));
            }
            (Ok((lo, hi)), false) => {
                let exp: Vec<usize> = (*lo..=*hi).collect();
                if exp != ok_pos {
                    let sig = if ok_pos.iter().all(|p| exp.contains(p)) { "range:too-wide" } else if exp.iter().all(|p| ok_pos.contains(p)) { "range:too-narrow" } else { "range:shifted" };
                    return Err(fail(sig, format!("calc_element_insert_range({n}) = ({lo}, {hi}) but the positions that keep the specification order are {:?}", ok_pos), &elem));
                }
            }
        }
        // is_allowed <=> range ok
        if let Some(a) = allowed.get(&n) {
            if *a != range.is_ok() {
                return Err(fail("list_valid_sub_elements:is_allowed-mismatch", format!("list_valid_sub_elements() says is_allowed({n}) = {a} but calc_element_insert_range is {:?}", range.as_ref().map_err(|e| e.to_string())), &elem));
            }
        } else {
            return Err(fail("list_valid_sub_elements:missing", format!("{n} is listed by the specification for this version but missing from list_valid_sub_elements()"), &elem));
        }
        // creation at p succeeds <=> p in range; probe every position and the neighbours
        if n == ElementName::ShortName {
            continue;
        }
        for p in 0..=len + 1 {
            let in_range = range.as_ref().is_ok_and(|(lo, hi)| *lo <= p && p <= *hi);
            let before = child_names(&elem);
            match create_at(&elem, n, named, Some(p), &mut counter) {
                Ok(new) => {
                    let pos_ok = elem.content().nth(p).and_then(|c| c.unwrap_element()).as_ref() == Some(&new);
                    let _ = elem.remove_sub_element(new);
                    if !in_range {
                        return Err(fail("create_at:succeeds-outside-range", format!("create at position {p} of {n} succeeded although the reported range is {:?}", range.as_ref().map_err(|e| e.to_string())), &elem));
                    }
                    if !pos_ok {
                        return Err(fail("create_at:wrong-position", format!("{n} created 'at {p}' is not content item {p}"), &elem));
                    }
                }
                Err(e) => {
                    if in_range {
                        return Err(fail("create_at:fails-inside-range", format!("create at position {p} of {n} failed ({e}) although the reported range is {:?}", range.as_ref().map_err(|e| e.to_string())), &elem));
                    }
                }
            }
            if child_names(&elem) != before {
                return Err(fail("harness:undo-failed", "could not restore the element after a probe".into(), &elem));
            }
        }
        // creation without position succeeds <=> allowed
        match create_at(&elem, n, named, None, &mut counter) {
            Ok(new) => {
                let _ = elem.remove_sub_element(new);
                if range.is_err() {
                    return Err(fail("create:succeeds-although-not-allowed", format!("create_sub_element({n}) succeeded although the element is reported as not insertable"), &elem));
                }
            }
            Err(e) => {
                if range.is_ok() {
                    return Err(fail("create:fails-although-allowed", format!("create_sub_element({n}) failed ({e}) although the element is reported as allowed"), &elem));
                }
            }
        }
    }
    Ok(())
}

// ---------------------------------------------------------------------------------------------
// (b) histories: round trip through lenient load, structure and value spaces

fn value_in_space(v: &CharacterData, spec: &'static CharacterDataSpec, version: AutosarVersion) -> Result<(), String> {
    match (spec, v) {
        (CharacterDataSpec::Enum { items }, CharacterData::Enum(e)) => {
            if items.iter().any(|(i, m)| i == e && m & (version as u32) != 0) {
                Ok(())
            } else {
                Err(format!("enumeration item {e} is not permitted here in {:?}", version))
            }
        }
        (CharacterDataSpec::Pattern { regex, max_length, .. }, CharacterData::String(s)) => {
            let ds = pattern_dfas3(regex);
            if ds.iter().all(|d| !d.accepts(s.as_bytes())) {
                // is it one of the languages the validators are known to over-accept (C19 findings)?
                if known_overaccepted(regex, s.as_bytes()) {
                    return Ok(());
                }
                return Err(format!("value {s:?} does not match the pattern {regex}"));
            }
            if max_length.is_some_and(|m| s.len() > m) {
                return Err(format!("value of {} bytes exceeds max_length {:?}", s.len(), max_length));
            }
            Ok(())
        }
        (CharacterDataSpec::String { max_length, .. }, CharacterData::String(s)) => {
            if max_length.is_some_and(|m| s.len() > m) {
                Err(format!("value of {} bytes exceeds max_length {:?}", s.len(), max_length))
            } else {
                Ok(())
            }
        }
        (CharacterDataSpec::UnsignedInteger, CharacterData::UnsignedInteger(_)) => Ok(()),
        (CharacterDataSpec::Float, CharacterData::Float(_)) => Ok(()),
        (s, v) => Err(format!("value {:?} has the wrong kind for {:?}", v, s)),
    }
}

/// O2: structure and value spaces of everything below `e` in `version`
fn check_structure(e: &Element, version: AutosarVersion) -> Result<(), (String, String)> {
    let si = SpecIndex::get();
    let vbit = version as u32;
    let et = e.element_type();
    let tid = si.id_of(et);
    let names: Vec<ElementName> = e.sub_elements().map(|k| k.element_name()).collect();
    if matches!(et.content_mode(), ContentMode::Sequence | ContentMode::Choice | ContentMode::Bag | ContentMode::Mixed) {
        if let Some(g) = si.grammar(tid, vbit) {
            if !valid_content(&g, &names) {
                // is it an element that is simply not permitted in this version?
                let foreign: Vec<&ElementName> = names.iter().filter(|n| et.find_sub_element(**n, vbit).is_none()).collect();
                if !foreign.is_empty() {
                    return Err(("structure:sub-element-not-permitted-in-version".into(), format!("{}: sub element(s) {:?} are not permitted in {:?}", e.xml_path(), foreign, version)));
                }
                return Err(("structure:order-or-multiplicity".into(), format!("{}: children {:?} violate the specification order / multiplicity", e.xml_path(), names)));
            }
        }
    } else if !names.is_empty() {
        return Err(("structure:elements-in-character-element".into(), format!("{} has sub elements", e.xml_path())));
    }
    for a in e.attributes() {
        match et.find_attribute_spec(a.attrname) {
            None => return Err(("structure:attribute-not-defined".into(), format!("{}: attribute {} is not defined for this element", e.xml_path(), a.attrname))),
            Some(spec) => {
                if spec.version & vbit == 0 {
                    return Err(("structure:attribute-not-permitted-in-version".into(), format!("{}: attribute {} (mask {:#x}) is not permitted in {:?}", e.xml_path(), a.attrname, spec.version, version)));
                }
                if e.element_name() != ElementName::Autosar {
                    value_in_space(&a.content, spec.spec, version).map_err(|m| ("structure:attribute-value".to_string(), format!("{} @{}: {m}", e.xml_path(), a.attrname)))?;
                }
            }
        }
    }
    if let Some(spec) = et.chardata_spec() {
        for c in e.content() {
            if let ElementContent::CharacterData(cd) = c {
                if et.content_mode() == ContentMode::Characters {
                    value_in_space(&cd, spec, version).map_err(|m| ("structure:value".to_string(), format!("{}: {m}", e.xml_path())))?;
                }
            }
        }
    }
    if et.is_named_in_version(version) && !matches!(crate::inv::own_item_name(e), Some(Some(_))) {
        return Err(("structure:named-element-without-short-name".into(), format!("{} is named in {:?} but has no SHORT-NAME value", e.xml_path(), version)));
    }
    for k in e.sub_elements() {
        // type prescribed by the parent for this name and version
        match et.find_sub_element(k.element_name(), vbit) {
            Some((t, _)) if t == k.element_type() => {}
            Some((t, _)) => return Err(("structure:element-type-differs-from-specification".into(), format!("{} has type {:?} but its parent prescribes {:?} for this name in {:?}", k.xml_path(), k.element_type(), t, version))),
            None => return Err(("structure:sub-element-not-permitted-in-version".into(), format!("{} is not permitted inside {} in {:?}", k.element_name(), e.xml_path(), version))),
        }
        check_structure(&k, version)?;
    }
    Ok(())
}

fn coalesce_text(mut n: ANode) -> ANode {
    let mut out: Vec<AContent> = vec![];
    for c in n.content.drain(..) {
        match c {
            AContent::Elem(e) => out.push(AContent::Elem(coalesce_text(e))),
            AContent::Text(AVal::Str(s)) => {
                if let Some(AContent::Text(AVal::Str(prev))) = out.last_mut() {
                    prev.push_str(&s);
                } else {
                    out.push(AContent::Text(AVal::Str(s)));
                }
            }
            other => out.push(other),
        }
    }
    n.content = out;
    n
}

/// exclusion predicate of KF-C07-2: copy / move of an element whose type differs from the type the
/// destination prescribes for its name (the copy keeps the source's type)
pub fn copy_keeps_foreign_type(w: &mut World, o: &Op) -> bool {
    if !matches!(o.code, op::COPY | op::COPY_AT | op::MOVE | op::MOVE_AT | op::COPY_X) {
        return false;
    }
    let Some((pid, sid)) = (if o.code == op::COPY_X { w.peek_copy_x(o) } else { w.peek_copy_move(o) }) else { return false };
    let (parent, src) = (w.elems[pid].clone(), w.elems[sid].clone());
    let Ok(version) = parent.min_version() else { return false };
    match parent.element_type().find_sub_element(src.element_name(), version as u32) {
        Some((t, _)) => t != src.element_type(),
        None => false,
    }
}

fn fail_h(sig: &str, msg: String, w: &World, case: &HistCase) -> Failure {
    let log = w.log.iter().enumerate().map(|(i, l)| format!("  {i:2}: {l}")).collect::<Vec<_>>().join("\n");
    Failure::new(sig, format!("{msg}\n--- history (fixture {}) ---\n{log}", case.fixture), case.to_json())
}

/// O1 + O2 on every single-file model of the world
fn check_world(w: &mut World, case: &HistCase, st: &mut Stats) -> Result<(), Failure> {
    for mi in 0..w.models.len() {
        let model = w.models[mi].clone();
        let files: Vec<ArxmlFile> = model.files().collect();
        if files.len() > 1 {
            // several files (possibly of several versions): what each file writes must be valid in that file's version
            for f in &files {
                st.class("files-of-multi-file-models-checked");
                let Ok(text) = f.serialize() else { continue };
                let m2 = AutosarModel::new();
                match m2.load_buffer(text.as_bytes(), "reload.arxml", false) {
                    Ok((_, warnings)) => {
                        for wn in &warnings {
                            let v = crate::loader::err_info(wn).variant;
                            if v != "Parser::RequiredAttributeMissing" {
                                return Err(fail_h(&format!("reload:warning:{v}"), format!("reloading the text written for {} ({:?}) of model {mi} warns: {wn}\n{}", f.filename().display(), f.version(), &text[..text.len().min(1500)]), w, case));
                            }
                        }
                    }
                    Err(e) => return Err(fail_h(&format!("reload:rejected:{}", crate::hist::err_variant(&e)), format!("the text written for {} of model {mi} is rejected by lenient loading: {e}\n{}", f.filename().display(), &text[..text.len().min(1500)]), w, case)),
                }
            }
            continue;
        }
        if files.len() != 1 {
            continue;
        }
        let f = &files[0];
        let version = f.version();
        st.class("models-checked");
        check_structure(&model.root_element(), version).map_err(|(sig, m)| fail_h(&sig, m, w, case))?;
        let Ok(text) = f.serialize() else { continue };
        let m2 = AutosarModel::new();
        let (_f2, warnings) = match m2.load_buffer(text.as_bytes(), "reload.arxml", false) {
            Ok(x) => x,
            Err(e) => return Err(fail_h(&format!("reload:rejected:{}", crate::hist::err_variant(&e)), format!("the text written for model {mi} is rejected by lenient loading: {e}\n{}", &text[..text.len().min(1500)]), w, case)),
        };
        for wn in &warnings {
            let v = crate::loader::err_info(wn).variant;
            if v != "Parser::RequiredAttributeMissing" {
                return Err(fail_h(&format!("reload:warning:{v}"), format!("reloading the text written for model {mi} warns: {wn}\n{}", &text[..text.len().min(1500)]), w, case));
            }
        }
        // adjacent text items of mixed content cannot be told apart in XML: compare with text runs coalesced
        let a = coalesce_text(extract_model(&model));
        let b = coalesce_text(extract_model(&m2));
        if let Some(d) = a.diff(&b, "") {
            let sig = if d.contains(": value ") { "reload:value-differs" } else if d.contains(": element type ") { "reload:element-type-differs" } else { "reload:content-differs" };
            return Err(fail_h(sig, format!("the reloaded text of model {mi} differs from the model: {d}"), w, case));
        }
    }
    Ok(())
}

pub fn run_history(case: &HistCase, st: &mut Stats, known_open: &dyn Fn(&str) -> bool, on_known: &dyn Fn(Failure)) -> Result<(), Failure> {
    let audit = Audit::install();
    let mut w = World::fixture_v(case.fixture);
    w.audit_mode = true;
    st.eval();
    let mut fp = case.fixture as u64;
    let mut nontrivial = false;
    for (step, o) in case.ops.iter().enumerate() {
        if let Some(kf) = crate::histprops::excluded_pub(&mut w, o, known_open) {
            st.excluded(kf);
            continue;
        }
        if known_open("structure:element-type-differs-from-specification") && copy_keeps_foreign_type(&mut w, o) {
            st.excluded("KF-C07-2");
            continue;
        }
        let r = no_panic(|| w.apply(o));
        let _ = audit.take_conflicts();
        let res = match r {
            Ok(r) => r,
            Err(_) => {
                audit.reset_held();
                st.class("aborted:panic-or-deadlock(C12)");
                return Ok(());
            }
        };
        if res.skipped {
            continue;
        }
        w.rescan();
        fp = mix(fp, fnv(res.desc.as_bytes()));
        if res.ok && matches!(o.code, op::SET_DATA | op::SET_ATTR | op::COPY | op::COPY_AT | op::MOVE | op::MOVE_AT | op::CREATE_AT | op::NAMED_AT) {
            nontrivial = true;
        }
        if o.code == op::LOAD {
            // loaded content is outside "produced by editing calls"; lenient loads may bring invalid content
            st.class("ended:load");
            return Ok(());
        }
        if res.ok || step + 1 == case.ops.len() {
            match check_world(&mut w, case, st) {
                Ok(()) => {}
                Err(f) => {
                    if known_open(&f.signature) {
                        on_known(f);
                        st.class("ended:known-finding");
                        return Ok(());
                    }
                    return Err(f);
                }
            }
        }
    }
    if nontrivial {
        st.nontrivial(fp);
        if st.want_sample() && w.log.len() > 3 {
            st.sample(json!({"fixture": case.fixture, "history": w.log.clone()}));
        }
    }
    Ok(())
}

pub fn run(ctx: &Ctx) {
    ctx.set_rule(
        "(a) Sweep over (element type, version): the element is built through the API along its witness path, grown by random successful creations, then for every sub-element name listed for the version and every content position 0..=len+1 the reported insertion range, list_valid_sub_elements() and the outcome of create(_named)_sub_element(_at) are compared with the set of positions that keep specification order according to an own grammar matcher (brute force). \
         (b) Histories of editing calls (values drawn from and outside the value spaces, cross-model and cross-version copies / moves) on single-file models of several versions; after every successful call: every element's children satisfy the grammar in the file's version, every element has the type its parent prescribes for that name and version, all attributes and values are in their value space, and serialize -> lenient load reproduces the content with no warning other than RequiredAttributeMissing. \
         Non-trivial: a probe on an element with >= 2 content items, or a history with a successful value / attribute / copy / move / positioned create; distinct by (type, version, content) / call sequence.",
    );
    ctx.assume("soundness of value checks only: a successful set implies a valid value; rejected valid values are not reported");
    let si = SpecIndex::get();
    // (a)
    let mut cases: Vec<RangeCase> = vec![];
    let mut sm = SplitMix(ctx.seed_for("range-sweep"));
    for vi in 0..NVER {
        for t in crate::c01::reachable(vi) {
            let et = si.types[t].etype;
            if matches!(et.content_mode(), ContentMode::Characters) {
                continue;
            }
            let r = sm.next();
            let has_groups = si.types[t].subs.iter().any(|s| et.find_sub_element(s.name, 1 << vi).is_some_and(|(_, idx)| idx.len() > 1));
            let take = match ctx.tier {
                Tier::Thorough => true,
                Tier::Quick => has_groups && (vi % 5 == (t % 5)) || r % 100 < 2,
            };
            if take {
                let reps = ctx.tier.pick(1, 2);
                for k in 0..reps {
                    let n = (mix(r, k) % 7) as usize;
                    cases.push(RangeCase { vi, tid: t, grow: (0..n).map(|i| mix(r, 100 + i as u64 + 10 * k) as u32).collect() });
                }
            }
        }
    }
    par_items(ctx, &cases, |c, st| {
        st.class("range-sweep-cases");
        match no_panic(|| run_range_case(c, st)) {
            Ok(Ok(())) => {}
            Ok(Err(f)) => {
                ctx.report(f);
            }
            Err(p) => {
                ctx.report(Failure::new(format!("panic:{}", panic_site(&p)), format!("range probe panicked: {p}"), c.to_json()));
            }
        }
    });
    // demonstration of KF-C07-5 (names of 127 / 128 characters are not in the generators' pool)
    {
        let mut st = Stats::new();
        st.eval();
        let long = format!("L{}", "2345678901".repeat(13))[..127].to_string();
        let m = AutosarModel::new();
        let r = (|| -> Result<Option<String>, AutosarDataError> {
            let f = m.create_file("long.arxml", AutosarVersion::Autosar_00050)?;
            let pk = m.root_element().create_sub_element(ElementName::ArPackages)?;
            let p1 = pk.create_named_sub_element(ElementName::ArPackage, &long)?;
            let copy = pk.create_copied_sub_element(&p1)?;
            let name = copy.item_name().unwrap_or_default();
            let text = f.serialize()?;
            let m2 = AutosarModel::new();
            let warns = match m2.load_buffer(text.as_bytes(), "r.arxml", false) {
                Ok((_, w)) => w.len(),
                Err(_) => usize::MAX,
            };
            Ok(if name.len() > 128 && warns > 0 { Some(format!("the copy is named with {} characters; reloading the written file gives {} complaint(s)", name.len(), if warns == usize::MAX { "a rejection and".to_string() } else { warns.to_string() })) } else { None })
        })();
        if let Ok(Some(d)) = r {
            ctx.report(Failure::new("copy:unique-name-longer-than-128", format!("create_copied_sub_element of an AR-PACKAGE with a 127-character name next to the original: {d}"), json!({"kind": "demonstration", "finding": "KF-C07-5"})));
        }
        ctx.merge(st);
    }
    // (b)
    let known_open = |sig: &str| ctx.is_known_open(sig);
    let n = ctx.tier.pick(20_000u64, 200_000u64);
    let mut weights = default_weights();
    for x in weights.iter_mut() {
        if matches!(x.0, op::SET_DATA | op::SET_ATTR | op::COPY | op::COPY_AT | op::CREATE_AT | op::NAMED_AT | op::MOVE) {
            x.1 += 6;
        }
        if matches!(x.0, op::LOAD | op::DUPLICATE | op::REMOVE_FILE | op::CREATE_FILE | op::SET_VERSION | op::ADD_TO_FILE | op::REMOVE_FROM_FILE) {
            x.1 = 0;
        }
    }
    let weights: Vec<(u32, u32)> = weights.into_iter().filter(|x| x.1 > 0).collect();
    let strat = (0u32..16, proptest::collection::vec(op_strategy(&weights), 0..30));
    run_prop(ctx, "histories", n, strat, |(fixture, ops), st| {
        let case = HistCase { fixture: *fixture, ops: ops.clone() };
        match run_history(&case, st, &known_open, &|f| {
            ctx.report(f);
        }) {
            Ok(()) => Outcome::Pass,
            Err(f) => Outcome::Fail(f),
        }
    });
}

pub fn replay(ctx: &Ctx, case: &Value) {
    let mut st = Stats::new();
    if case["kind"] == "range" {
        if let Some(c) = RangeCase::from_json(case) {
            if let Err(f) = run_range_case(&c, &mut st) {
                ctx.report(f);
            }
        }
    } else if let Some(c) = HistCase::from_json(case) {
        if let Err(f) = run_history(&c, &mut st, &|_| false, &|_| {}) {
            ctx.report(f);
        }
    }
    ctx.merge(st);
}
