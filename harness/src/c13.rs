//! C13 — deep copy and model duplication are faithful and independent.
use crate::adoc::*;
use crate::audit::*;
use crate::engine::*;
use crate::hist::*;
use crate::histprops::HistCase;
use crate::inv::*;
use crate::spec::*;
use autosar_data::*;
use autosar_data_specification::CharacterDataSpec;
use proptest::prelude::*;
use serde_json::{json, Value};
use std::collections::HashSet;

fn fail(sig: &str, msg: String, w: &World, case: &HistCase) -> Failure {
    let log = w.log.iter().enumerate().map(|(i, l)| format!("  {i:2}: {l}")).collect::<Vec<_>>().join("\n");
    Failure::new(sig, format!("{msg}\n--- history (fixture {}; the last call is the copy / duplicate under test) ---\n{log}", case.fixture), case.to_json())
}

/// after a load: duplicate paths (KF-C09-1) or a rejected merge that left partial imports behind (KF-C11-1)?
pub fn dup_paths(w: &mut World) -> bool {
    let failed_merge = w.log.last().is_some_and(|l| l.contains("ERR(InvalidFileMerge)"));
    if failed_merge {
        return true;
    }
    for mi in 0..w.models.len() {
        let s = scan(w, mi);
        if s.paths.values().any(|v| v.len() > 1) {
            return true;
        }
    }
    false
}

fn subtree(e: &Element) -> Vec<Element> {
    e.elements_dfs().map(|(_, x)| x).collect()
}

/// own version filter: what of `n` is permitted below a parent of type `parent_et` in `version`?
/// Returns None when the element itself is not permitted. `dontcare` is set when an element loses a required attribute.
fn filter(n: &ANode, parent_et: autosar_data_specification::ElementType, version: AutosarVersion, dontcare: &mut bool) -> Option<ANode> {
    let vbit = version as u32;
    parent_et.find_sub_element(n.name, vbit)?;
    // a type that has a SHORT-NAME in the destination version is not permitted there without one
    if n.etype.is_named_in_version(version) && !n.children().any(|k| k.name == ElementName::ShortName) {
        return None;
    }
    let mut out = ANode::new(n.name, n.etype);
    out.comment = n.comment.clone();
    for (a, v) in &n.attrs {
        let Some(spec) = n.etype.find_attribute_spec(*a) else { continue };
        let value_ok = match (spec.spec, v) {
            (CharacterDataSpec::Enum { items }, AVal::Enum(e)) => items.iter().any(|(i, m)| i == e && m & vbit != 0),
            _ => true,
        };
        if spec.version & vbit != 0 && value_ok {
            out.attrs.push((*a, v.clone()));
        } else if spec.required {
            *dontcare = true;
        }
    }
    for c in &n.content {
        match c {
            AContent::Elem(k) => {
                if let Some(f) = filter(k, n.etype, version, dontcare) {
                    out.content.push(AContent::Elem(f));
                }
            }
            other => out.content.push(other.clone()),
        }
    }
    Some(out)
}

fn set_own_name(n: &mut ANode, name: &str) {
    for c in &mut n.content {
        if let AContent::Elem(e) = c {
            if e.name == ElementName::ShortName {
                e.content = vec![AContent::Text(AVal::Str(name.to_string()))];
                return;
            }
        }
    }
}

/// a few direct edits inside the sub tree of `side`; returns a description
fn edit_inside(side: &Element, salt: u32) -> Vec<String> {
    let mut done = vec![];
    let elems = subtree(side);
    let n = elems.len();
    for k in 0..3u32 {
        let e = &elems[(mix(salt as u64, k as u64) as usize) % n];
        match k {
            0 => {
                e.set_comment(Some(format!("edited{salt}")));
                done.push(format!("{}.set_comment", e.element_name()));
            }
            1 => {
                // change a value
                if let Some(v) = elems.iter().find(|x| x.content_type() == ContentType::CharacterData && x.element_name() != ElementName::ShortName && !x.is_reference() && x.character_data().is_some_and(|c| matches!(c, CharacterData::String(_)))) {
                    if v.set_character_data(format!("v{salt}")).is_ok() {
                        done.push(format!("{}.set_character_data", v.element_name()));
                    }
                }
            }
            _ => {
                // structural edit: remove the last child of some element with children (not a SHORT-NAME)
                if let Some(p) = elems.iter().rev().find(|x| x.sub_elements().any(|c| c.element_name() != ElementName::ShortName)) {
                    if let Some(c) = p.sub_elements().filter(|c| c.element_name() != ElementName::ShortName).last() {
                        if p.remove_sub_element(c).is_ok() {
                            done.push(format!("{}.remove_sub_element(last)", p.element_name()));
                        }
                    }
                }
            }
        }
    }
    done
}

pub fn run_case(case: &HistCase, st: &mut Stats, known_open: &dyn Fn(&str) -> bool, on_known: &dyn Fn(Failure)) -> Result<(), Failure> {
    let audit = Audit::install();
    let mut w = World::fixture_v(case.fixture);
    w.audit_mode = true;
    st.eval();
    let n = case.ops.len();
    if n == 0 {
        return Ok(());
    }
    for o in &case.ops[..n - 1] {
        if crate::histprops::excluded_pub(&mut w, o, known_open).is_some() {
            continue;
        }
        if no_panic(|| w.apply(o)).is_err() {
            audit.reset_held();
            st.class("aborted:panic-or-deadlock(C12)");
            return Ok(());
        }
        w.rescan();
        if o.code == op::LOAD && dup_paths(&mut w) {
            // open finding KF-C09-1 (merge imports a duplicate) or a failed merge: the world is corrupt
            st.class("ended:merge-duplicate-or-failed-merge(KF-C09-1/KF-C11-1)");
            return Ok(());
        }
    }
    for mi in 0..w.models.len() {
        let s = scan(&mut w, mi);
        if s.paths.values().any(|v| v.len() > 1) {
            st.class("skipped:duplicate-paths-before-operation");
            return Ok(());
        }
    }
    let last = &case.ops[n - 1];
    if last.code == op::DUPLICATE {
        return match check_duplicate(&mut w, case, last, st) {
            Err(f) if known_open(&f.signature) => {
                on_known(f);
                Ok(())
            }
            other => other,
        };
    }
    if !matches!(last.code, op::COPY | op::COPY_AT | op::COPY_X) {
        return Ok(());
    }
    let Some((pid, sid)) = w.peek_copy_move(last) else { return Ok(()) };
    if !w.live_set.contains(&pid) || !w.live_set.contains(&sid) {
        st.class("skipped:stale-operand");
        return Ok(());
    }
    if known_open("container-copy-or-move:child-path-collides-in-destination") && crate::histprops::container_children_collide_pub(&mut w, pid, sid) {
        st.excluded("KF-C04-1");
        return Ok(());
    }
    let (parent, src) = (w.elems[pid].clone(), w.elems[sid].clone());
    let (Ok(ver_dst), Ok(ver_src)) = (parent.min_version(), src.min_version()) else { return Ok(()) };
    let type_differs = parent.element_type().find_sub_element(src.element_name(), ver_dst as u32).is_some_and(|(t, _)| t != src.element_type());
    if type_differs && known_open("structure:element-type-differs-from-specification") {
        st.excluded("KF-C07-2");
        return Ok(());
    }
    let same_version = ver_dst == ver_src;
    let mi_dst = w.model_of_pub(pid);
    let mi_src = w.model_of_pub(sid);
    // pre-state
    let pre: Vec<Snapshot> = (0..w.models.len()).map(|mi| snapshot(&mut w, mi, false)).collect();
    let src_before = extract_element(&src);
    let ids_before: HashSet<Element> = w.elems.iter().cloned().collect();
    let kids_before: Vec<Element> = parent.sub_elements().collect();
    // expected own name
    let parent_prefix = {
        let s = scan(&mut w, mi_dst);
        let mut cur = Some(pid);
        let mut p = String::new();
        while let Some(c) = cur {
            if let Some(pp) = s.path_of.get(&c) {
                p = pp.clone();
                break;
            }
            cur = w.parent_of.get(&c).cloned();
        }
        p
    };
    let src_name = src_before.item_name().map(|s| s.to_string());
    let expected_name = src_name.as_ref().map(|nm| {
        let model = &w.models[mi_dst];
        if model.get_element_by_path(&format!("{parent_prefix}/{nm}")).is_none() {
            nm.clone()
        } else {
            let mut k = 1;
            loop {
                let cand = format!("{nm}_{k}");
                if model.get_element_by_path(&format!("{parent_prefix}/{cand}")).is_none() {
                    break cand;
                }
                k += 1;
            }
        }
    });
    let r = no_panic(|| w.apply(last));
    let res = match r {
        Ok(r) => r,
        Err(_) => {
            audit.reset_held();
            st.class("aborted:panic-or-deadlock(C12)");
            return Ok(());
        }
    };
    if !res.ok {
        st.class(&format!("copy-failed:{}", res.err.clone().unwrap_or_default()));
        return Ok(());
    }
    w.rescan();
    let kids_after: Vec<Element> = parent.sub_elements().collect();
    let new: Vec<&Element> = kids_after.iter().filter(|k| !kids_before.contains(k)).collect();
    if new.len() != 1 {
        return Err(fail("copy:not-exactly-one-new-child", format!("after the copy the destination has {} new children", new.len()), &w, case));
    }
    let copy = new[0].clone();
    let class = format!("copy-ok:{}{}", if mi_dst != mi_src { "other-model:" } else { "" }, if same_version { "same-version" } else { "other-version" });
    st.class(&class);
    // object disjointness
    for e in subtree(&copy) {
        if ids_before.contains(&e) {
            return Err(fail("copy:shares-element-object-with-source", format!("the copy contains an element object <{}> that existed before the copy", e.element_name()), &w, case));
        }
    }
    // source unchanged
    let src_after = extract_element(&src);
    if let Some(d) = src_before.diff(&src_after, "") {
        return Err(fail("copy:source-changed", format!("the source changed: {d}"), &w, case));
    }
    // content of the copy
    let got = extract_element(&copy);
    let mut expected = if same_version {
        src_before.clone()
    } else {
        let mut dc = false;
        match filter(&src_before, parent.element_type(), ver_dst, &mut dc) {
            Some(f) if !dc => f,
            _ => {
                st.dontcare("cross-version-copy:required-attribute-not-permitted");
                got.clone()
            }
        }
    };
    if let Some(nm) = &expected_name {
        set_own_name(&mut expected, nm);
    }
    if let Some(d) = expected.diff(&got, "") {
        let sig = if same_version { "copy:content-differs" } else { "copy:version-filter-differs" };
        let f = fail(sig, format!("the copy (second) differs from the {} (first): {d}", if same_version { "source" } else { "source filtered to the destination version" }), &w, case);
        if known_open(&f.signature) {
            on_known(f);
            return Ok(());
        }
        return Err(f);
    }
    // index: identifiables and references of the copy are findable (global invariants on the destination model)
    {
        let s = scan(&mut w, mi_dst);
        inv_paths(&mut w, mi_dst, &s).map_err(|(sig, m)| fail(&format!("copy:{sig}"), m, &w, case))?;
        inv_refs(&mut w, mi_dst, &s).map_err(|(sig, m)| fail(&format!("copy:{sig}"), m, &w, case))?;
        inv_tree(&mut w, mi_dst, &s, false).map_err(|(sig, m)| fail(&format!("copy:{sig}"), m, &w, case))?;
    }
    // cross-version: the result still validates
    if !same_version {
        let files: Vec<ArxmlFile> = w.models[mi_dst].files().collect();
        if files.len() == 1 {
            if let Ok(text) = files[0].serialize() {
                let m2 = AutosarModel::new();
                match m2.load_buffer(text.as_bytes(), "x.arxml", false) {
                    Ok((_, warnings)) => {
                        for wn in &warnings {
                            let v = crate::loader::err_info(wn).variant;
                            if v != "Parser::RequiredAttributeMissing" {
                                let f = fail(&format!("copy:cross-version-result-invalid:{v}"), format!("after a copy into a {:?} file the written text warns: {wn}", ver_dst), &w, case);
                                if known_open(&f.signature) {
                                    on_known(f);
                                    return Ok(());
                                }
                                return Err(f);
                            }
                        }
                    }
                    Err(e) => return Err(fail("copy:cross-version-result-rejected", format!("after a copy into a {:?} file the written text is rejected: {e}", ver_dst), &w, case)),
                }
            }
        }
    }
    st.nontrivial(fnv(w.log.join("\n").as_bytes()));
    // independence: edits inside the copy must not show in the source and vice versa
    let salt = last.d;
    let (first, second, who) = if salt % 2 == 0 { (&copy, &src, "copy") } else { (&src, &copy, "source") };
    let other_before = extract_element(second);
    let edits = edit_inside(first, salt);
    let other_after = extract_element(second);
    if let Some(d) = other_before.diff(&other_after, "") {
        return Err(fail("copy:not-independent", format!("edits inside the {who} ({:?}) are visible in the other side: {d}", edits), &w, case));
    }
    // copy + remove = identity on everything else
    if salt % 2 == 0 && salt % 3 == 0 {
        let _ = parent.remove_sub_element(copy.clone());
        w.rescan();
        for mi in 0..pre.len() {
            let post = snapshot(&mut w, mi, false);
            if let Some(d) = pre[mi].diff(&post) {
                return Err(fail("copy:left-traces-after-removal", format!("removing the copy again does not restore model {mi}: {d}"), &w, case));
            }
        }
    }
    if st.want_sample() && w.log.len() > 1 {
        st.sample(json!({"fixture": case.fixture, "history": w.log.clone(), "class": class}));
    }
    Ok(())
}

fn check_duplicate(w: &mut World, case: &HistCase, last: &Op, st: &mut Stats) -> Result<(), Failure> {
    let mi = pick(w.models.len(), last.a);
    let orig = w.models[mi].clone();
    let pre = snapshot(w, mi, true);
    let ids_before: HashSet<Element> = w.elems.iter().cloned().collect();
    let dup = match no_panic(|| orig.duplicate()) {
        Ok(Ok(d)) => d,
        Ok(Err(e)) => {
            st.class(&format!("duplicate-failed:{}", err_variant(&e)));
            return Ok(());
        }
        Err(_) => {
            st.class("aborted:panic-or-deadlock(C12)");
            return Ok(());
        }
    };
    w.log.push(format!("ok    model{mi}.duplicate()"));
    // open finding KF-C13-1: in a model whose files have different versions duplicate() copies everything with the
    // LOWEST file version, so elements that only exist in newer versions are dropped (and the zip of the two
    // walks then assigns file membership to the wrong elements)
    let versions: HashSet<AutosarVersion> = orig.files().map(|f| f.version()).collect();
    let weight = |m: &AutosarModel| -> usize { m.elements_dfs().map(|(_, e)| 1 + e.attributes().count()).sum() };
    if versions.len() > 1 && weight(&dup) < weight(&orig) {
        return Err(fail("duplicate:mixed-version-model:content-filtered-by-lowest-file-version", format!("the model has files of versions {:?}; the duplicate has {} elements + attributes, the original {}", versions, weight(&dup), weight(&orig)), w, case));
    }
    st.class(&format!("duplicate-ok:{}-files", orig.files().count()));
    // per-file text equal
    let ofiles: Vec<ArxmlFile> = orig.files().collect();
    let dfiles: Vec<ArxmlFile> = dup.files().collect();
    if ofiles.len() != dfiles.len() {
        return Err(fail("duplicate:file-count", format!("{} files vs {}", ofiles.len(), dfiles.len()), w, case));
    }
    for of in &ofiles {
        let Some(df) = dfiles.iter().find(|f| f.filename() == of.filename()) else {
            return Err(fail("duplicate:file-missing", format!("file {:?} is missing in the duplicate", of.filename()), w, case));
        };
        if df.version() != of.version() || df.xml_standalone() != of.xml_standalone() {
            return Err(fail("duplicate:file-attributes", "version / standalone differ".into(), w, case));
        }
        let (a, b) = (of.serialize(), df.serialize());
        match (a, b) {
            (Ok(a), Ok(b)) if a == b => {}
            (Err(_), Err(_)) => {}
            (a, b) => {
                let d = match (&a, &b) {
                    (Ok(a), Ok(b)) => a.lines().zip(b.lines()).enumerate().find(|(_, (x, y))| x != y).map(|(i, (x, y))| format!("line {}: {x:?} vs {y:?}", i + 1)).unwrap_or_else(|| format!("{} vs {} lines", a.lines().count(), b.lines().count())),
                    _ => "one side fails to serialize".into(),
                };
                return Err(fail("duplicate:file-text-differs", format!("file {:?} serializes differently in the duplicate: {d}", of.filename()), w, case));
            }
        }
    }
    // object disjointness
    for (_, e) in dup.elements_dfs() {
        if ids_before.contains(&e) {
            return Err(fail("duplicate:shares-element-object", format!("the duplicate contains an element object <{}> of the original", e.element_name()), w, case));
        }
    }
    // invariants of the duplicate
    w.models.push(dup.clone());
    let nm = w.models.len() - 1;
    for f in dup.files() {
        w.files.push(FileH { model: nm, file: f });
    }
    w.rescan();
    {
        let s = scan(w, nm);
        inv_tree(w, nm, &s, false).map_err(|(sig, m)| fail(&format!("duplicate:{sig}"), m, w, case))?;
        inv_paths(w, nm, &s).map_err(|(sig, m)| fail(&format!("duplicate:{sig}"), m, w, case))?;
        inv_refs(w, nm, &s).map_err(|(sig, m)| fail(&format!("duplicate:{sig}"), m, w, case))?;
        inv_membership(w, nm, &s, false).map_err(|(sig, m)| fail(&format!("duplicate:{sig}"), m, w, case))?;
    }
    st.nontrivial(fnv(w.log.join("\n").as_bytes()));
    // independent evolution, both directions
    let dup_before = snapshot(w, nm, true);
    let edits = edit_inside(&orig.root_element(), last.d);
    w.rescan();
    let dup_after = snapshot(w, nm, true);
    if let Some(d) = dup_before.diff(&dup_after) {
        return Err(fail("duplicate:not-independent", format!("edits in the original ({:?}) are visible in the duplicate: {d}", edits), w, case));
    }
    let orig_before = snapshot(w, mi, true);
    let edits = edit_inside(&dup.root_element(), last.d ^ 0x5555);
    w.rescan();
    let orig_after = snapshot(w, mi, true);
    if let Some(d) = orig_before.diff(&orig_after) {
        return Err(fail("duplicate:not-independent", format!("edits in the duplicate ({:?}) are visible in the original: {d}", edits), w, case));
    }
    let _ = pre;
    Ok(())
}

pub fn run(ctx: &Ctx) {
    ctx.set_rule(
        "A world prepared by up to 12 generated editing / file steps (fixtures: loaded document, empty models, second model of the same or of an older / newer version), then ONE deep copy (same parent, other parent, other model, other version) or one duplicate(). \
         Copy oracle: extract(copy) == extract(source) (same version) or == own version filter of the source (other version), own item name = source name or the smallest free _N suffix computed from the pre-state, no element object shared, source unchanged, path / reference / tree invariants hold in the destination (so every copied identifiable and reference is findable), cross-version result loads leniently with no complaint but RequiredAttributeMissing, edits inside one side leave the other unchanged, removing the copy restores the full snapshot. \
         Duplicate oracle: per-file serialize() byte-equal, no shared objects, all invariants incl. membership hold in the duplicate, edits in either model leave the other's full snapshot (incl. per-file text) unchanged. Non-trivial: the copy / duplicate succeeded; distinct by call sequence.",
    );
    let known_open = |sig: &str| ctx.is_known_open(sig);
    let cases = ctx.tier.pick(40_000u64, 400_000u64);
    let prep = vec![(op::NAMED, 8), (op::CREATE, 8), (op::SET_DATA, 6), (op::SET_REF, 4), (op::SET_ATTR, 10), (op::SET_COMMENT, 2), (op::MOVE, 2), (op::COPY, 2), (op::CREATE_FILE, 2), (op::ADD_TO_FILE, 3), (op::REMOVE_FROM_FILE, 1), (op::LOAD, 2), (op::RENAME, 2)];
    let fin = vec![(op::COPY, 6), (op::COPY_AT, 3), (op::COPY_X, 6), (op::DUPLICATE, 3)];
    let strat = (0u32..12, proptest::collection::vec(op_strategy(&prep), 0..12), op_strategy(&fin));
    run_prop(ctx, "copy-duplicate", cases, strat, |(fixture, prep_ops, last), st| {
        let mut ops = prep_ops.clone();
        ops.push(*last);
        let case = HistCase { fixture: *fixture, ops };
        match run_case(&case, st, &known_open, &|f| {
            ctx.report(f);
        }) {
            Ok(()) => Outcome::Pass,
            Err(f) => Outcome::Fail(f),
        }
    });
}

pub fn replay(ctx: &Ctx, case: &Value) {
    let mut st = Stats::new();
    if let Some(c) = HistCase::from_json(case) {
        if let Err(f) = run_case(&c, &mut st, &|_| false, &|_| {}) {
            ctx.report(f);
        }
    }
    ctx.merge(st);
}
