//! Own regular-expression engine for the XSD-regex subset used by the published patterns:
//! parser -> Thompson NFA -> subset construction over byte classes -> Moore minimisation.
//! Provides an acceptor (oracle), member generation by walks, and W-method test suites.
#![allow(dead_code)]

use std::collections::{BTreeSet, HashMap, VecDeque};

#[derive(Clone, Copy, PartialEq, Eq, Debug)]
pub enum DotMode {
    /// XSD: '.' excludes \n and \r
    NoNlCr,
    /// excludes \n only
    NoNl,
    /// matches every byte
    All,
}

#[derive(Clone, Copy, PartialEq, Eq, Hash)]
pub struct ByteSet(pub [u64; 4]);
impl ByteSet {
    pub fn empty() -> Self {
        ByteSet([0; 4])
    }
    pub fn full() -> Self {
        ByteSet([u64::MAX; 4])
    }
    pub fn add(&mut self, b: u8) {
        self.0[(b >> 6) as usize] |= 1 << (b & 63);
    }
    pub fn del(&mut self, b: u8) {
        self.0[(b >> 6) as usize] &= !(1 << (b & 63));
    }
    pub fn has(&self, b: u8) -> bool {
        self.0[(b >> 6) as usize] & (1 << (b & 63)) != 0
    }
    pub fn range(&mut self, a: u8, b: u8) {
        for c in a..=b {
            self.add(c);
        }
    }
    pub fn invert(&mut self) {
        for w in &mut self.0 {
            *w = !*w;
        }
    }
}

#[derive(Clone, Debug)]
enum Ast {
    Set(usize), // index into sets
    Cat(Vec<Ast>),
    Alt(Vec<Ast>),
    Rep(Box<Ast>, u32, Option<u32>),
    Empty,
}

struct Parser<'a> {
    s: &'a [u8],
    i: usize,
    sets: Vec<ByteSet>,
    dot: DotMode,
    pub has_dot: bool,
}

impl<'a> Parser<'a> {
    fn peek(&self) -> Option<u8> {
        self.s.get(self.i).copied()
    }
    fn set(&mut self, s: ByteSet) -> Ast {
        if let Some(p) = self.sets.iter().position(|x| *x == s) {
            Ast::Set(p)
        } else {
            self.sets.push(s);
            Ast::Set(self.sets.len() - 1)
        }
    }
    fn alt(&mut self) -> Result<Ast, String> {
        let mut alts = vec![self.cat()?];
        while self.peek() == Some(b'|') {
            self.i += 1;
            alts.push(self.cat()?);
        }
        Ok(if alts.len() == 1 { alts.pop().unwrap() } else { Ast::Alt(alts) })
    }
    fn cat(&mut self) -> Result<Ast, String> {
        let mut items = vec![];
        while let Some(c) = self.peek() {
            if c == b'|' || c == b')' {
                break;
            }
            let a = self.atom()?;
            let a = self.quant(a)?;
            items.push(a);
        }
        Ok(match items.len() {
            0 => Ast::Empty,
            1 => items.pop().unwrap(),
            _ => Ast::Cat(items),
        })
    }
    fn quant(&mut self, a: Ast) -> Result<Ast, String> {
        match self.peek() {
            Some(b'?') => {
                self.i += 1;
                Ok(Ast::Rep(Box::new(a), 0, Some(1)))
            }
            Some(b'*') => {
                self.i += 1;
                Ok(Ast::Rep(Box::new(a), 0, None))
            }
            Some(b'+') => {
                self.i += 1;
                Ok(Ast::Rep(Box::new(a), 1, None))
            }
            Some(b'{') => {
                self.i += 1;
                let m = self.num()?;
                let n = if self.peek() == Some(b',') {
                    self.i += 1;
                    if self.peek() == Some(b'}') {
                        None
                    } else {
                        Some(self.num()?)
                    }
                } else {
                    Some(m)
                };
                if self.peek() != Some(b'}') {
                    return Err("expected }".into());
                }
                self.i += 1;
                Ok(Ast::Rep(Box::new(a), m, n))
            }
            _ => Ok(a),
        }
    }
    fn num(&mut self) -> Result<u32, String> {
        let st = self.i;
        while self.peek().is_some_and(|c| c.is_ascii_digit()) {
            self.i += 1;
        }
        std::str::from_utf8(&self.s[st..self.i]).unwrap().parse().map_err(|_| "number".to_string())
    }
    fn escape(&mut self) -> Result<ByteSet, String> {
        let c = self.peek().ok_or("dangling backslash")?;
        self.i += 1;
        let mut s = ByteSet::empty();
        match c {
            b'd' => s.range(b'0', b'9'),
            b'n' => s.add(b'\n'),
            b'r' => s.add(b'\r'),
            b't' => s.add(b'\t'),
            b'.' | b'-' | b'+' | b'_' | b'[' | b']' | b'(' | b')' | b'\\' | b'|' | b'?' | b'*' | b'{' | b'}' | b'^' | b'$' => s.add(c),
            _ => return Err(format!("unsupported escape \\{}", c as char)),
        }
        Ok(s)
    }
    fn atom(&mut self) -> Result<Ast, String> {
        let c = self.peek().ok_or("unexpected end")?;
        self.i += 1;
        match c {
            b'(' => {
                let a = self.alt()?;
                if self.peek() != Some(b')') {
                    return Err("expected )".into());
                }
                self.i += 1;
                Ok(a)
            }
            b'[' => {
                let mut set = ByteSet::empty();
                let mut neg = false;
                if self.peek() == Some(b'^') {
                    neg = true;
                    self.i += 1;
                }
                loop {
                    let c = self.peek().ok_or("unterminated class")?;
                    self.i += 1;
                    if c == b']' {
                        break;
                    }
                    let lo: ByteSet = if c == b'\\' {
                        self.escape()?
                    } else {
                        let mut s = ByteSet::empty();
                        s.add(c);
                        s
                    };
                    // range?
                    if self.peek() == Some(b'-') && self.s.get(self.i + 1).is_some_and(|n| *n != b']') && c != b'\\' {
                        self.i += 1;
                        let mut hi = self.peek().ok_or("range end")?;
                        self.i += 1;
                        if hi == b'\\' {
                            hi = self.peek().ok_or("range end")?;
                            self.i += 1;
                        }
                        if hi < c {
                            return Err("reversed range".into());
                        }
                        set.range(c, hi);
                    } else {
                        for b in 0..=255u8 {
                            if lo.has(b) {
                                set.add(b);
                            }
                        }
                    }
                }
                if neg {
                    set.invert();
                }
                Ok(self.set(set))
            }
            b'\\' => {
                let s = self.escape()?;
                Ok(self.set(s))
            }
            b'.' => {
                self.has_dot = true;
                let mut s = ByteSet::full();
                match self.dot {
                    DotMode::NoNlCr => {
                        s.del(b'\n');
                        s.del(b'\r');
                    }
                    DotMode::NoNl => s.del(b'\n'),
                    DotMode::All => {}
                }
                Ok(self.set(s))
            }
            b')' | b'|' | b'?' | b'*' | b'+' | b'{' | b'}' | b']' => Err(format!("unexpected {}", c as char)),
            _ => {
                let mut s = ByteSet::empty();
                s.add(c);
                Ok(self.set(s))
            }
        }
    }
}

struct Nfa {
    // per state: epsilon edges, set edges
    eps: Vec<Vec<u32>>,
    edges: Vec<Vec<(usize, u32)>>,
}
impl Nfa {
    fn new_state(&mut self) -> u32 {
        self.eps.push(vec![]);
        self.edges.push(vec![]);
        (self.eps.len() - 1) as u32
    }
    /// build fragment from start state; returns end state
    fn build(&mut self, a: &Ast, start: u32) -> u32 {
        match a {
            Ast::Empty => start,
            Ast::Set(i) => {
                let e = self.new_state();
                self.edges[start as usize].push((*i, e));
                e
            }
            Ast::Cat(items) => {
                let mut cur = start;
                for it in items {
                    cur = self.build(it, cur);
                }
                cur
            }
            Ast::Alt(alts) => {
                let end = self.new_state();
                for alt in alts {
                    let s = self.new_state();
                    self.eps[start as usize].push(s);
                    let e = self.build(alt, s);
                    self.eps[e as usize].push(end);
                }
                end
            }
            Ast::Rep(inner, min, max) => {
                let mut cur = start;
                for _ in 0..*min {
                    cur = self.build(inner, cur);
                }
                match max {
                    None => {
                        // loop
                        let s = self.new_state();
                        self.eps[cur as usize].push(s);
                        let e = self.build(inner, s);
                        self.eps[e as usize].push(s);
                        let end = self.new_state();
                        self.eps[s as usize].push(end);
                        end
                    }
                    Some(mx) => {
                        let end = self.new_state();
                        self.eps[cur as usize].push(end);
                        for _ in *min..*mx {
                            let s = self.new_state();
                            self.eps[cur as usize].push(s);
                            cur = self.build(inner, s);
                            self.eps[cur as usize].push(end);
                        }
                        end
                    }
                }
            }
        }
    }
}

#[derive(Clone)]
pub struct Dfa {
    pub regex: String,
    pub class_of: [u16; 256],
    pub ncls: usize,
    /// bytes of each class
    pub class_bytes: Vec<Vec<u8>>,
    /// trans[state * ncls + class]
    pub trans: Vec<u32>,
    pub accept: Vec<bool>,
    pub start: u32,
    /// min number of bytes to reach an accepting state; u32::MAX for dead states
    pub dist: Vec<u32>,
    pub has_dot: bool,
}

impl Dfa {
    pub fn nstates(&self) -> usize {
        self.accept.len()
    }
    #[inline]
    pub fn step(&self, s: u32, b: u8) -> u32 {
        self.trans[s as usize * self.ncls + self.class_of[b as usize] as usize]
    }
    pub fn run(&self, s: &[u8]) -> u32 {
        let mut st = self.start;
        for b in s {
            st = self.step(st, *b);
        }
        st
    }
    pub fn accepts(&self, s: &[u8]) -> bool {
        self.accept[self.run(s) as usize]
    }
    pub fn is_dead(&self, st: u32) -> bool {
        self.dist[st as usize] == u32::MAX
    }

    pub fn compile(regex: &str, dot: DotMode) -> Result<Dfa, String> {
        let mut p = Parser { s: regex.as_bytes(), i: 0, sets: vec![], dot, has_dot: false };
        let ast = p.alt()?;
        if p.i != regex.len() {
            return Err(format!("trailing input at {}", p.i));
        }
        let sets = p.sets.clone();
        // byte classes: bytes with identical membership vector
        let mut sig_to_class: HashMap<Vec<bool>, u16> = HashMap::new();
        let mut class_of = [0u16; 256];
        let mut class_bytes: Vec<Vec<u8>> = vec![];
        for b in 0..=255u8 {
            let sig: Vec<bool> = sets.iter().map(|s| s.has(b)).collect();
            let n = sig_to_class.len() as u16;
            let c = *sig_to_class.entry(sig).or_insert(n);
            if c as usize == class_bytes.len() {
                class_bytes.push(vec![]);
            }
            class_bytes[c as usize].push(b);
            class_of[b as usize] = c;
        }
        let ncls = class_bytes.len();
        let mut nfa = Nfa { eps: vec![], edges: vec![] };
        let s0 = nfa.new_state();
        let end = nfa.build(&ast, s0);
        // subset construction
        let closure = |set: &mut BTreeSet<u32>| {
            let mut work: Vec<u32> = set.iter().copied().collect();
            while let Some(s) = work.pop() {
                for e in &nfa.eps[s as usize] {
                    if set.insert(*e) {
                        work.push(*e);
                    }
                }
            }
        };
        let mut start = BTreeSet::new();
        start.insert(s0);
        closure(&mut start);
        let mut ids: HashMap<Vec<u32>, u32> = HashMap::new();
        let mut states: Vec<Vec<u32>> = vec![];
        let key: Vec<u32> = start.iter().copied().collect();
        ids.insert(key.clone(), 0);
        states.push(key);
        let mut trans: Vec<u32> = vec![];
        let mut q = VecDeque::new();
        q.push_back(0u32);
        while let Some(d) = q.pop_front() {
            let cur = states[d as usize].clone();
            let base = d as usize * ncls;
            if trans.len() < base + ncls {
                trans.resize(base + ncls, u32::MAX);
            }
            for c in 0..ncls {
                let rep = class_bytes[c][0];
                let mut nxt = BTreeSet::new();
                for s in &cur {
                    for (si, to) in &nfa.edges[*s as usize] {
                        if sets[*si].has(rep) {
                            nxt.insert(*to);
                        }
                    }
                }
                closure(&mut nxt);
                let key: Vec<u32> = nxt.iter().copied().collect();
                let id = if let Some(id) = ids.get(&key) {
                    *id
                } else {
                    let id = states.len() as u32;
                    ids.insert(key.clone(), id);
                    states.push(key);
                    q.push_back(id);
                    id
                };
                trans[base + c] = id;
            }
        }
        let n = states.len();
        trans.resize(n * ncls, u32::MAX);
        let accept: Vec<bool> = states.iter().map(|s| s.binary_search(&end).is_ok()).collect();
        // Moore minimisation
        let mut part: Vec<u32> = accept.iter().map(|a| *a as u32).collect();
        loop {
            let mut sigs: HashMap<Vec<u32>, u32> = HashMap::new();
            let mut np = vec![0u32; n];
            for s in 0..n {
                let mut sig = Vec::with_capacity(ncls + 1);
                sig.push(part[s]);
                for c in 0..ncls {
                    sig.push(part[trans[s * ncls + c] as usize]);
                }
                let k = sigs.len() as u32;
                np[s] = *sigs.entry(sig).or_insert(k);
            }
            let done = {
                let a: BTreeSet<u32> = part.iter().copied().collect();
                sigs.len() == a.len()
            };
            part = np;
            if done {
                break;
            }
        }
        // renumber so that start = 0 in BFS order
        let nb = part.iter().copied().max().unwrap_or(0) as usize + 1;
        let mut rep_of = vec![usize::MAX; nb];
        for s in 0..n {
            if rep_of[part[s] as usize] == usize::MAX {
                rep_of[part[s] as usize] = s;
            }
        }
        let mut order = vec![u32::MAX; nb];
        let mut bfs = VecDeque::new();
        let mut count = 0u32;
        order[part[0] as usize] = 0;
        count += 1;
        bfs.push_back(part[0]);
        let mut seq = vec![part[0]];
        while let Some(b) = bfs.pop_front() {
            let r = rep_of[b as usize];
            for c in 0..ncls {
                let t = part[trans[r * ncls + c] as usize];
                if order[t as usize] == u32::MAX {
                    order[t as usize] = count;
                    count += 1;
                    bfs.push_back(t);
                    seq.push(t);
                }
            }
        }
        let m = count as usize;
        let mut mtrans = vec![0u32; m * ncls];
        let mut maccept = vec![false; m];
        for (new, b) in seq.iter().enumerate() {
            let r = rep_of[*b as usize];
            maccept[new] = accept[r];
            for c in 0..ncls {
                mtrans[new * ncls + c] = order[part[trans[r * ncls + c] as usize] as usize];
            }
        }
        // distance to accept (reverse BFS)
        let mut dist = vec![u32::MAX; m];
        let mut rev: Vec<Vec<u32>> = vec![vec![]; m];
        for s in 0..m {
            for c in 0..ncls {
                rev[mtrans[s * ncls + c] as usize].push(s as u32);
            }
        }
        let mut dq = VecDeque::new();
        for s in 0..m {
            if maccept[s] {
                dist[s] = 0;
                dq.push_back(s as u32);
            }
        }
        while let Some(s) = dq.pop_front() {
            for p in &rev[s as usize] {
                if dist[*p as usize] == u32::MAX {
                    dist[*p as usize] = dist[s as usize] + 1;
                    dq.push_back(*p);
                }
            }
        }
        Ok(Dfa {
            regex: regex.to_string(),
            class_of,
            ncls,
            class_bytes,
            trans: mtrans,
            accept: maccept,
            start: 0,
            dist,
            has_dot: p.has_dot,
        })
    }

    /// Generate a member of the language from a tape of random choices. Each tape cell chooses
    /// (a) whether to stop in an accepting state, (b) the next live transition, (c) the byte of
    /// the class. When the tape ends the shortest path to acceptance is appended.
    /// `prefer` restricts the bytes drawn from large classes to the given alphabet if possible.
    pub fn member(&self, tape: &[u32], prefer: &[u8]) -> Vec<u8> {
        let mut out = vec![];
        let mut st = self.start;
        if self.is_dead(st) {
            return out;
        }
        for cell in tape {
            let cell = *cell;
            if self.accept[st as usize] && (cell & 7) == 0 {
                break;
            }
            let live: Vec<usize> = (0..self.ncls).filter(|c| !self.is_dead(self.trans[st as usize * self.ncls + c])).collect();
            if live.is_empty() {
                break;
            }
            let c = live[((cell >> 3) as usize) % live.len()];
            out.push(self.pick_byte(c, cell >> 12, prefer));
            st = self.trans[st as usize * self.ncls + c];
        }
        // finish along a shortest path
        while !self.accept[st as usize] {
            let mut best = None;
            for c in 0..self.ncls {
                let t = self.trans[st as usize * self.ncls + c];
                if !self.is_dead(t) && self.dist[t as usize] + 1 == self.dist[st as usize] {
                    best = Some(c);
                    break;
                }
            }
            let c = best.expect("live state has a successor closer to acceptance");
            out.push(self.pick_byte(c, 0, prefer));
            st = self.trans[st as usize * self.ncls + c];
        }
        out
    }

    fn pick_byte(&self, class: usize, r: u32, prefer: &[u8]) -> u8 {
        let bytes = &self.class_bytes[class];
        if bytes.len() > 8 {
            let pref: Vec<u8> = prefer.iter().copied().filter(|b| self.class_of[*b as usize] as usize == class).collect();
            if !pref.is_empty() {
                return pref[r as usize % pref.len()];
            }
            // printable ascii if possible
            let pr: Vec<u8> = bytes.iter().copied().filter(|b| (0x20..0x7f).contains(b)).collect();
            if !pr.is_empty() {
                return pr[r as usize % pr.len()];
            }
        }
        bytes[r as usize % bytes.len()]
    }

    /// access strings (as class sequences): shortest class path from the start to every state
    pub fn state_cover(&self) -> Vec<Vec<u16>> {
        let m = self.nstates();
        let mut acc: Vec<Option<Vec<u16>>> = vec![None; m];
        acc[self.start as usize] = Some(vec![]);
        let mut q = VecDeque::new();
        q.push_back(self.start);
        while let Some(s) = q.pop_front() {
            for c in 0..self.ncls {
                let t = self.trans[s as usize * self.ncls + c];
                if acc[t as usize].is_none() {
                    let mut p = acc[s as usize].clone().unwrap();
                    p.push(c as u16);
                    acc[t as usize] = Some(p);
                    q.push_back(t);
                }
            }
        }
        acc.into_iter().map(|a| a.unwrap_or_default()).collect()
    }

    /// characterising set: class strings that pairwise distinguish all states (greedy)
    pub fn characterising_set(&self) -> Vec<Vec<u16>> {
        let m = self.nstates();
        let run = |mut s: u32, w: &[u16]| {
            for c in w {
                s = self.trans[s as usize * self.ncls + *c as usize];
            }
            self.accept[s as usize]
        };
        let mut w: Vec<Vec<u16>> = vec![vec![]];
        // partition states by responses to W; refine until all singletons
        loop {
            let mut groups: HashMap<Vec<bool>, Vec<u32>> = HashMap::new();
            for s in 0..m as u32 {
                let sig: Vec<bool> = w.iter().map(|x| run(s, x)).collect();
                groups.entry(sig).or_default().push(s);
            }
            let mut keys: Vec<&Vec<u32>> = groups.values().filter(|g| g.len() > 1).collect();
            if keys.is_empty() {
                break;
            }
            keys.sort();
            let g = keys[0];
            // shortest string distinguishing g[0] and g[1]: BFS over pairs
            let (a, b) = (g[0], g[1]);
            let mut seen: HashMap<(u32, u32), Option<((u32, u32), u16)>> = HashMap::new();
            let mut q = VecDeque::new();
            seen.insert((a, b), None);
            q.push_back((a, b));
            let mut found = None;
            while let Some((x, y)) = q.pop_front() {
                if self.accept[x as usize] != self.accept[y as usize] {
                    found = Some((x, y));
                    break;
                }
                for c in 0..self.ncls {
                    let nx = self.trans[x as usize * self.ncls + c];
                    let ny = self.trans[y as usize * self.ncls + c];
                    if nx != ny && !seen.contains_key(&(nx, ny)) {
                        seen.insert((nx, ny), Some(((x, y), c as u16)));
                        q.push_back((nx, ny));
                    }
                }
            }
            let Some(mut cur) = found else {
                // not minimal?! should not happen
                break;
            };
            let mut s = vec![];
            while let Some(Some((prev, c))) = seen.get(&cur) {
                s.push(*c);
                cur = *prev;
            }
            s.reverse();
            w.push(s);
        }
        w
    }

    pub fn render_classes(&self, cls: &[u16], variant: usize) -> Vec<u8> {
        cls.iter()
            .enumerate()
            .map(|(i, c)| {
                let b = &self.class_bytes[*c as usize];
                b[(variant.wrapping_mul(31).wrapping_add(i * 7)) % b.len()]
            })
            .collect()
    }
}

#[cfg(test)]
mod test {
    use super::*;
    #[test]
    fn basic() {
        let d = Dfa::compile(r"[0-9]+\.[0-9]+\.[0-9]+([\._;].*)?", DotMode::All).unwrap();
        assert!(d.accepts(b"1.0.0"));
        assert!(d.accepts(b"1.0.0;abc"));
        assert!(!d.accepts(b"1.0"));
        assert!(!d.accepts(b"1.0.0x"));
        let d = Dfa::compile(r"/?[a-zA-Z][a-zA-Z0-9_]{0,127}(/[a-zA-Z][a-zA-Z0-9_]{0,127})*", DotMode::All).unwrap();
        assert!(d.accepts(b"/abc/def"));
        assert!(!d.accepts(b"/abc/"));
        let long = format!("/{}", "a".repeat(128));
        assert!(d.accepts(long.as_bytes()));
        let long = format!("/{}", "a".repeat(129));
        assert!(!d.accepts(long.as_bytes()));
    }
}
