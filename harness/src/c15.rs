//! C15 (no deadlock) and C16 (serializability) — drivers over the deterministic scheduler.
use crate::conc::*;
use crate::engine::*;
use crate::sched::*;
use proptest::prelude::*;
use serde_json::{json, Value};
use std::collections::HashMap;
use std::sync::{Mutex, OnceLock};

#[derive(Clone, Copy, PartialEq, Eq, Debug)]
pub enum Which {
    C15,
    C16,
}

/// enclosing function of a "file.rs:line" site, read from the current /repo sources (robust against line shifts)
fn fn_of_site(site: &str) -> String {
    static CACHE: OnceLock<Mutex<HashMap<String, String>>> = OnceLock::new();
    let c = CACHE.get_or_init(|| Mutex::new(HashMap::new()));
    if let Some(v) = c.lock().unwrap().get(site) {
        return v.clone();
    }
    let (file, line) = site.split_once(':').unwrap_or((site, "0"));
    let line: usize = line.parse().unwrap_or(0);
    let mut name = format!("{file}:?");
    let is_lock_call = |l: &str| [".read()", ".write()", "try_read_for(", "try_write_for(", "try_write()"].iter().any(|p| l.contains(p));
    // VERIF_SRC_DIR (development): a frozen copy of the two src directories, so that a collection run is not disturbed by
    // edits of /repo made while it runs (the line numbers compiled into this binary must match the text that is read here)
    let base = std::env::var("VERIF_SRC_DIR").unwrap_or_else(|_| "/repo".to_string());
    for dir in [format!("{base}/autosar-data/src"), format!("{base}/autosar-data-specification/src")] {
        if let Ok(text) = std::fs::read_to_string(format!("{dir}/{file}")) {
            let lines: Vec<&str> = text.lines().collect();
            let mut i = line.min(lines.len());
            // ordinal of this lock call among the lock calls of the enclosing function (robust against edits elsewhere,
            // and it tells a timed try-lock that was turned into a blocking lock from the blocking locks next to it)
            let mut ordinal = 0;
            while i > 0 {
                i -= 1;
                let l = lines[i].trim_start();
                if is_lock_call(l) && !l.starts_with("//") {
                    ordinal += 1;
                }
                if let Some(p) = l.find("fn ") {
                    if l.starts_with("pub") || l.starts_with("fn ") {
                        let rest = &l[p + 3..];
                        let n: String = rest.chars().take_while(|c| c.is_alphanumeric() || *c == '_').collect();
                        name = format!("{}:{}#{}", file, n, ordinal);
                        break;
                    }
                }
            }
            break;
        }
    }
    c.lock().unwrap().insert(site.to_string(), name.clone());
    name
}

/// wait descriptor of a blocked thread: function of the blocked request / lock class / mode
fn descriptor(r: &Req) -> String {
    format!("{}/{}/{:?}", fn_of_site(&r.site), r.class, r.mode)
}

/// operation pairs of the open finding KF-C16-1 (read from known_findings.json, never written at run time)
fn known_nonserializable() -> &'static Vec<String> {
    static K: OnceLock<Vec<String>> = OnceLock::new();
    K.get_or_init(|| {
        let path = format!("{}/known_findings.json", verif_dir());
        let Ok(text) = std::fs::read_to_string(path) else { return vec![] };
        let Ok(v) = serde_json::from_str::<Value>(&text) else { return vec![] };
        let mut out = vec![];
        for f in v["findings"].as_array().cloned().unwrap_or_default() {
            if f["property"] == "C16" && f["status"] == "open" {
                for s in f["operation_pairs"].as_array().cloned().unwrap_or_default() {
                    if let Some(s) = s.as_str() {
                        out.push(s.to_string());
                    }
                }
                // writers that are not atomic against (almost) anything: any pair that involves one of them
                for s in f["non_atomic_writers"].as_array().cloned().unwrap_or_default() {
                    if let Some(s) = s.as_str() {
                        out.push(format!("*{s}"));
                    }
                }
            }
        }
        out
    })
}

fn known_upward_sites() -> &'static Vec<String> {
    static K: OnceLock<Vec<String>> = OnceLock::new();
    K.get_or_init(|| {
        let path = format!("{}/known_findings.json", verif_dir());
        let Ok(text) = std::fs::read_to_string(path) else { return vec![] };
        let Ok(v) = serde_json::from_str::<Value>(&text) else { return vec![] };
        let mut out = vec![];
        for f in v["findings"].as_array().cloned().unwrap_or_default() {
            if f["property"] == "C15" && f["status"] == "open" {
                for s in f["upward_wait_sites"].as_array().cloned().unwrap_or_default() {
                    if let Some(s) = s.as_str() {
                        out.push(s.to_string());
                    }
                }
            }
        }
        out
    })
}

/// a named list of the open finding KF-C15-1
fn known_list(name: &str) -> Vec<String> {
    static K: OnceLock<Value> = OnceLock::new();
    let v = K.get_or_init(|| {
        let path = format!("{}/known_findings.json", verif_dir());
        std::fs::read_to_string(path).ok().and_then(|t| serde_json::from_str::<Value>(&t).ok()).unwrap_or(Value::Null)
    });
    let mut out = vec![];
    for f in v["findings"].as_array().cloned().unwrap_or_default() {
        if f["property"] == "C15" && f["status"] == "open" {
            for s in f[name].as_array().cloned().unwrap_or_default() {
                if let Some(s) = s.as_str() {
                    out.push(s.to_string());
                }
            }
        }
    }
    out
}

/// holding sites of the open finding KF-C15-1 (sites where a lock was taken that another blocked thread waits for)
fn known_hold_sites() -> &'static Vec<String> {
    static K: OnceLock<Vec<String>> = OnceLock::new();
    K.get_or_init(|| {
        let path = format!("{}/known_findings.json", verif_dir());
        let Ok(text) = std::fs::read_to_string(path) else { return vec![] };
        let Ok(v) = serde_json::from_str::<Value>(&text) else { return vec![] };
        let mut out = vec![];
        for f in v["findings"].as_array().cloned().unwrap_or_default() {
            if f["property"] == "C15" && f["status"] == "open" {
                for s in f["hold_sites"].as_array().cloned().unwrap_or_default() {
                    if let Some(s) = s.as_str() {
                        out.push(s.to_string());
                    }
                }
            }
        }
        out
    })
}

/// wait sites of the open finding KF-C15-1 (read from known_findings.json, never written at run time)
fn known_wait_sites() -> &'static Vec<String> {
    static K: OnceLock<Vec<String>> = OnceLock::new();
    K.get_or_init(|| {
        let path = format!("{}/known_findings.json", verif_dir());
        let Ok(text) = std::fs::read_to_string(path) else { return vec![] };
        let Ok(v) = serde_json::from_str::<Value>(&text) else { return vec![] };
        let mut out = vec![];
        for f in v["findings"].as_array().cloned().unwrap_or_default() {
            if f["property"] == "C15" && f["status"] == "open" {
                for s in f["wait_sites"].as_array().cloned().unwrap_or_default() {
                    if let Some(s) = s.as_str() {
                        out.push(s.to_string());
                    }
                }
            }
        }
        out
    })
}

/// A deadlock is keyed by the set of wait descriptors of its blocked threads. It counts as the recorded finding
/// only if EVERY blocked request sits at a recorded wait site; a thread blocked anywhere else is a new violation.
fn deadlock_signature(dl: &DeadlockInfo) -> (String, String) {
    let mut parts: Vec<String> = dl.blocked.iter().map(|(_, r, _)| descriptor(r)).collect();
    parts.sort();
    parts.dedup();
    if std::env::var("VERIF_DUMP_SITES").is_ok() {
        for p in &parts {
            eprintln!("WAITSITE {p}");
        }
    }
    let mut detail: Vec<String> = vec![];
    for (t, r, held) in &dl.blocked {
        let recursive = r.mode == autosar_data::verif::LockMode::Read && held.iter().any(|h| h.lock == r.lock && h.mode == autosar_data::verif::LockMode::Read);
        detail.push(format!(
            "thread {t} waits for {:?} {} at {} ({}){} holding {:?}",
            r.mode,
            r.class,
            r.site,
            fn_of_site(&r.site),
            if recursive { " [second read lock on a lock it already holds for reading: blocked by the waiting writer]" } else { "" },
            held.iter().map(|h| format!("{:?} {} from {}", h.mode, h.class, h.site)).collect::<Vec<_>>()
        ));
    }
    // the other half of every wait: where the lock that is waited for was taken by the thread(s) holding it. A lock that is
    // held ACROSS a blocking request at a place where the pinned code releases it at once shows up as a new holding site even
    // when all waits sit at recorded sites.
    let mut holds: Vec<String> = vec![];
    for (_, r, _) in &dl.blocked {
        for (_, _, held2) in &dl.blocked {
            for h in held2.iter().filter(|h| h.lock == r.lock) {
                holds.push(format!("{}/{}/{:?}", fn_of_site(&h.site), h.class, h.mode));
            }
        }
    }
    holds.sort();
    holds.dedup();
    if std::env::var("VERIF_DUMP_SITES").is_ok() {
        for p in &holds {
            eprintln!("HOLDSITE {p}");
        }
    }
    // third dimension: requests for a READ lock by a thread that already holds that lock for reading (they only block when
    // a writer waits in between: parking_lot's documented recursion hazard). The pinned code has some; a new one is new.
    let mut recs: Vec<String> = dl
        .blocked
        .iter()
        .filter(|(_, r, held)| r.mode == autosar_data::verif::LockMode::Read && held.iter().any(|h| h.lock == r.lock && h.mode == autosar_data::verif::LockMode::Read))
        .map(|(_, r, _)| descriptor(r))
        .collect();
    recs.sort();
    recs.dedup();
    if std::env::var("VERIF_DUMP_SITES").is_ok() {
        for p in &recs {
            eprintln!("RECSITE {p}");
        }
    }
    let known_r = known_list("recursive_read_sites");
    let unknown_r: Vec<&String> = recs.iter().filter(|p| !known_r.contains(p)).collect();
    let known = known_wait_sites();
    // every blocking read() / write() call of the pinned sources is a possible wait site (list computed from the sources,
    // so it is complete by construction: "file:function#ordinal/mode"); what was seen waiting is recorded with its lock class too
    let static_sites = known_list("static_blocking_sites");
    let is_static = |p: &String| -> bool {
        let mut it = p.rsplitn(3, '/');
        let (mode, _class, head) = (it.next().unwrap_or(""), it.next().unwrap_or(""), it.next().unwrap_or(""));
        static_sites.contains(&format!("{head}/{mode}"))
    };
    let unknown: Vec<&String> = parts.iter().filter(|p| !known.contains(p) && !is_static(p)).collect();
    let known_h = known_hold_sites();
    let unknown_h: Vec<&String> = holds.iter().filter(|p| !known_h.contains(p)).collect();
    let sig = if std::env::var("VERIF_DUMP_SITES").is_ok() {
        // collection mode (development): everything was printed above; keep exploring instead of stopping at the first new site
        "deadlock:all-blocked-requests-at-recorded-wait-sites".to_string()
    } else if !unknown.is_empty() {
        format!("deadlock:new-wait-site:{}", unknown[0])
    } else if !unknown_h.is_empty() {
        format!("deadlock:new-holding-site:{}", unknown_h[0])
    } else if !unknown_r.is_empty() {
        format!("deadlock:new-recursive-read-site:{}", unknown_r[0])
    } else {
        "deadlock:all-blocked-requests-at-recorded-wait-sites".to_string()
    };
    (sig, format!("wait sites: {}\n{}", parts.join(" + "), detail.join("; ")))
}

pub fn judge(which: Which, c: &ConcCase, st: &mut Stats) -> Result<(), Failure> {
    st.eval();
    let out = run_concurrent(c);
    st.class(&format!("schedule-points:{}", match out.info.points.len() { 0..=5 => "<=5", 6..=20 => "<=20", 21..=100 => "<=100", _ => ">100" }));
    let nontrivial = out.info.contention;
    let fp = fnv(format!("{:?}{:?}", c.threads, out.info.points).as_bytes());
    if let Some(dl) = &out.info.deadlock {
        st.class("outcome:deadlock");
        if which == Which::C15 {
            let (mut sig, mut msg) = deadlock_signature(dl);
            // design rule of the crate (elementraw.rs): "parent element locks can only be acquired with try_lock".
            // A thread that BLOCKS on the lock of an ancestor while it holds the lock of a descendant breaks that rule;
            // such a wait is never part of the recorded finding, whatever the site.
            for (t, r, held) in &dl.blocked {
                if r.class != "ElementRaw" || r.kind != autosar_data::verif::LockKind::Block {
                    continue;
                }
                for h in held.iter().filter(|h| h.class == "ElementRaw" && h.lock != r.lock) {
                    let mut cur = h.lock;
                    let mut steps = 0;
                    while let Some(p) = out.parents.get(&cur) {
                        steps += 1;
                        if *p == r.lock {
                            sig = format!("deadlock:blocking-wait-for-ancestor-lock:{}", fn_of_site(&r.site));
                            msg = format!("thread {t} holds the lock of an element (taken at {}) and BLOCKS on the lock of its ancestor {steps} level(s) up at {} ({}): parent locks must only be taken with timed try-locks\n{msg}", h.site, r.site, fn_of_site(&r.site));
                            break;
                        }
                        cur = *p;
                        if steps > 64 {
                            break;
                        }
                    }
                }
            }
            if sig.starts_with("deadlock:blocking-wait-for-ancestor-lock") {
                st.class("deadlock:upward-blocking-wait");
                if std::env::var("VERIF_DUMP_SITES").is_ok() {
                    eprintln!("UPWARD {sig}");
                }
                // the few sites where an OPERAND that happens to be an ancestor is locked with a blocking lock are recorded
                let site = sig.rsplit_once("lock:").map(|x| x.1.to_string()).unwrap_or_default();
                if known_upward_sites().contains(&site) {
                    sig = "deadlock:all-blocked-requests-at-recorded-wait-sites".to_string();
                }
            }
            if nontrivial {
                st.nontrivial(fp);
            }
            return Err(Failure::new(sig, format!("{}\noperations: {}\nschedule choices: {:?}", msg, c.describe(), out.info.points.iter().map(|p| p.1).collect::<Vec<_>>()), c.to_json()));
        }
        return Ok(());
    }
    if out.info.aborted {
        st.class("outcome:step-limit(inconclusive)");
        return Ok(());
    }
    if let Some(Err(p)) = out.results.iter().find(|r| r.is_err()) {
        st.class("outcome:panic-in-library(C12)");
        let _ = p;
        return Ok(());
    }
    st.class("outcome:completed");
    if nontrivial {
        st.nontrivial(fp);
    }
    if which == Which::C15 {
        return Ok(());
    }
    // C16
    if c.threads.iter().flatten().any(|o| matches!(o.code % NCODES, 6 | 7 | 8)) {
        // iterators are sequences of next() calls, not single operations: their totals are not compared
        st.class("c16-skipped:iterator-operation");
        return Ok(());
    }
    let results: Vec<Vec<String>> = out.results.iter().map(|r| r.clone().unwrap()).collect();
    let mut skip = vec![];
    for (t, rs) in results.iter().enumerate() {
        for (k, r) in rs.iter().enumerate() {
            // the documented "parent locked" outcome: as an error value, or as the (LOCKED) marker inside an xml_path
            if r == "Err(ParentElementLocked)" || r.contains("(LOCKED)") {
                skip.push((t, k));
                st.class("op-returned-ParentElementLocked");
            }
        }
    }
    let mut names: Vec<&str> = c.threads.iter().flat_map(|t| t.iter().map(|o| OP_NAMES[o.code as usize % OP_NAMES.len()])).collect();
    names.sort();
    names.dedup();
    let classify = |names: &Vec<&str>, kind: &str| -> String {
        // what is wrong is part of the signature: an invariant class (paths, refs, membership, tree), a state that no order
        // yields, or only the results
        let sig = format!("not-serializable:{}/{}", names.join("+"), kind);
        if std::env::var("VERIF_DUMP_SITES").is_ok() {
            // collection mode (development): print and keep exploring
            eprintln!("NONSER {sig}");
            return "not-serializable:recorded-operation-pair".to_string();
        }
        let k = known_nonserializable();
        // an entry without "/kind" (pairs seen too rarely to know their kinds) covers every kind of that pair
        let pair_only = sig.split('/').next().unwrap_or("").to_string();
        if k.contains(&sig) || k.contains(&pair_only) || k.iter().any(|w| w.starts_with('*') && names.contains(&&w[1..])) {
            "not-serializable:recorded-operation-pair".to_string()
        } else {
            sig
        }
    };
    if let Err((sig, msg)) = &out.inv {
        let kind = format!("inv:{}", sig.split(':').next().unwrap_or("other"));
        return Err(Failure::new(classify(&names, &kind), format!("after the concurrent run an invariant is broken ({sig}): {msg}\noperations: {}\nschedule choices: {:?}", c.describe(), out.info.points.iter().map(|p| p.1).collect::<Vec<_>>()), c.to_json()));
    }
    let summary = out.summary.clone().unwrap_or_default();
    let seqs = sequential_outcomes(c, &skip);
    let matches = seqs.iter().any(|(res, sum)| {
        *sum == summary
            && results.iter().enumerate().all(|(t, rs)| {
                rs.iter().enumerate().all(|(k, r)| match &res[t][k] {
                    Some(x) => x == r,
                    None => true,
                })
            })
    });
    if !matches {
        // classify: only the results differ (some order yields the state), or the final state itself
        let kind = if seqs.iter().any(|(_, sum)| *sum == summary) { "results" } else { "state" };
        let sig = classify(&names, kind);
        let mut msg = format!("no sequential order of the operations yields the results {:?} together with the final state of the concurrent run\noperations: {}\nschedule choices: {:?}\n", results, c.describe(), out.info.points.iter().map(|p| p.1).collect::<Vec<_>>());
        for (i, (res, sum)) in seqs.iter().enumerate().take(2) {
            msg.push_str(&format!("sequential order {i}: results {:?}; state {}\n", res, if *sum == summary { "equal" } else { "differs" }));
            if *sum != summary {
                let a: Vec<&str> = sum.lines().collect();
                let b: Vec<&str> = summary.lines().collect();
                if let Some(j) = (0..a.len().max(b.len())).find(|j| a.get(*j) != b.get(*j)) {
                    msg.push_str(&format!("   first state difference: sequential {:?} vs concurrent {:?}\n", a.get(j).map(|s| &s[..s.len().min(300)]), b.get(j).map(|s| &s[..s.len().min(300)])));
                }
            }
        }
        return Err(Failure::new(sig, msg, c.to_json()));
    }
    Ok(())
}

/// a failure must reproduce (the library's HashSet of files makes some lock orders run-dependent)
fn stable(which: Which, c: &ConcCase, sig: &str) -> bool {
    for _ in 0..2 {
        let mut s = Stats::new();
        match judge(which, c, &mut s) {
            Err(f) if f.signature == sig => {}
            _ => return false,
        }
    }
    true
}

fn report(ctx: &Ctx, which: Which, c: &ConcCase, f: Failure, st: &mut Stats) {
    if stable(which, c, &f.signature) {
        ctx.report(f);
    } else {
        st.class("unstable(not reported)");
    }
}

/// systematic exploration: all schedules of the case up to a preemption bound (iterative context bounding)
fn explore(ctx: &Ctx, which: Which, threads: &[Vec<COp>], bound: usize, max_runs: usize, st: &mut Stats) {
    // breadth first over the number of preemptions (all schedules with one preemption before any with two); within one level
    // the candidates are taken alternately from both ends, so that a capped exploration covers early AND late preemption points
    let mut stack: std::collections::VecDeque<Vec<u8>> = std::collections::VecDeque::from(vec![vec![]]);
    let mut runs = 0;
    let mut seen_sigs: Vec<String> = vec![];
    let mut from_front = true;
    while let Some(prefix) = if from_front { stack.pop_front() } else { stack.pop_back() } {
        from_front = !from_front;
        if runs >= max_runs {
            st.class("explore:budget-exhausted");
            break;
        }
        runs += 1;
        let c = ConcCase { threads: threads.to_vec(), schedule: prefix.clone() };
        // one run to learn the scheduling points
        let out = run_concurrent(&c);
        let points = out.info.points.clone();
        match judge(which, &c, st) {
            Ok(()) => {}
            Err(f) => {
                if !seen_sigs.contains(&f.signature) {
                    seen_sigs.push(f.signature.clone());
                    report(ctx, which, &c, f, st);
                }
            }
        }
        for i in prefix.len()..points.len() {
            let (nopts, _) = points[i];
            for alt in 1..nopts {
                let mut np: Vec<u8> = points[..i].iter().map(|p| p.1).collect();
                np.push(alt);
                let pre = np.iter().filter(|x| **x != 0).count();
                if pre <= bound {
                    stack.push_back(np);
                }
            }
        }
    }
    st.class_n("explore:schedules", runs as u64);
}

pub fn run(ctx: &Ctx, which: Which) {
    ctx.set_rule(match which {
        Which::C15 => "Two or three controlled threads execute catalogue operations (17 readers, 19 writers incl. serialize, path, iterate, check_references, create, remove, rename, move, copy, set data, set_reference_target, attributes, comment, sort, create_file, remove_file, add_to_file, remove_from_file, load_buffer, duplicate) on a two-file model (some elements with file sets of their own) plus a second model; the roles place the operands as same / parent-child / ancestor-descendant / referrer-target / unrelated / other model. The harness owns the schedule (lock shim): every lock request is a scheduling point, timed waits can be fired by the schedule; (a) all ordered operation pairs of a curated list with all schedules up to a preemption bound, (b) proptest-generated operations and schedules. Oracle: a state in which every unfinished thread waits on a non-timed request is a deadlock. Non-trivial: the threads contended for at least one lock; distinct by operations + choices.",
        Which::C16 => "Same generators as C15. Oracle: the per-operation results and the final id-free state summary (per-file text, tree with comments and file membership, path index, reverse reference map, invalid-reference report of both models) must equal those of SOME sequential order of the operations (all interleavings of whole operations are executed on fresh fixtures); operations that returned ParentElementLocked are left out of the sequential runs (they must have had no effect); tree / path / reference / membership invariants must hold afterwards. Non-trivial: the threads contended for at least one lock; distinct by operations + choices.",
    });
    ctx.assume("the logical lock table mirrors parking_lot's writer-preference policy as read from its source; wake-up order among waiters is over-approximated (any enabled thread may run next)");
    // (a) curated pairs, systematic schedules
    let readers: Vec<COp> = vec![
        COp { code: 0, a: 0, b: 0 },
        COp { code: 1, a: 4, b: 0 },
        COp { code: 1, a: 2, b: 0 },
        COp { code: 2, a: 14, b: 0 },
        COp { code: 3, a: 7, b: 0 },
        COp { code: 5, a: 4, b: 0 },
        COp { code: 6, a: 2, b: 0 },
        COp { code: 8, a: 0, b: 0 },
        COp { code: 9, a: 0, b: 3 },
        COp { code: 10, a: 0, b: 3 },
        COp { code: 11, a: 0, b: 0 },
        COp { code: 12, a: 0, b: 0 },
        COp { code: 13, a: 14, b: 19 },
        COp { code: 14, a: 4, b: 0 },
        COp { code: 16, a: 7, b: 0 },
        COp { code: 0, a: 1, b: 0 },
        COp { code: 38, a: 4, b: 0 },
        COp { code: 38, a: 23, b: 0 },
        COp { code: 5, a: 23, b: 0 },
        COp { code: 1, a: 3, b: 0 },
    ];
    let writers: Vec<COp> = vec![
        COp { code: 17, a: 4, b: 0 },
        COp { code: 18, a: 3, b: 1 },
        COp { code: 19, a: 12, b: 0 },
        COp { code: 19, a: 5, b: 0 },
        COp { code: 20, a: 14, b: 2 },
        COp { code: 20, a: 13, b: 2 },
        COp { code: 21, a: 3, b: 19 },
        COp { code: 21, a: 3, b: 14 },
        COp { code: 21, a: 22, b: 13 },
        COp { code: 22, a: 3, b: 14 },
        COp { code: 23, a: 7, b: 1 },
        COp { code: 24, a: 7, b: 19 },
        COp { code: 25, a: 4, b: 0 },
        COp { code: 27, a: 4, b: 0 },
        COp { code: 28, a: 0, b: 0 },
        COp { code: 29, a: 0, b: 0 },
        COp { code: 29, a: 0, b: 1 },
        COp { code: 30, a: 0, b: 0 },
        COp { code: 31, a: 12, b: 0 },
        COp { code: 32, a: 12, b: 0 },
        COp { code: 33, a: 0, b: 0 },
        COp { code: 34, a: 0, b: 0 },
        // elements with file sets of their own (second.arxml): move, remove from / add to a file, remove
        COp { code: 21, a: 24, b: 23 },
        COp { code: 32, a: 23, b: 2 },
        COp { code: 31, a: 26, b: 0 },
        COp { code: 19, a: 23, b: 0 },
        // the same reference element re-targeted to ANOTHER target (against {24, 7, 19})
        COp { code: 24, a: 7, b: 14 },
        // renaming the two files of the model
        COp { code: 36, a: 0, b: 0 },
        COp { code: 36, a: 1, b: 0 },
        // clearing a reference (against rename / move of its target)
        COp { code: 37, a: 7, b: 0 },
        COp { code: 37, a: 15, b: 0 },
    ];
    let mut pairs: Vec<(COp, COp)> = vec![];
    for w in &writers {
        for r in &readers {
            pairs.push((*r, *w));
        }
        for w2 in &writers {
            pairs.push((*w, *w2));
        }
    }
    if std::env::var("VERIF_ALLPAIRS").is_ok() {
        // collection mode (development): every ordered pair of operation codes on several operand placements
        pairs.clear();
        let placements: [(u8, u8, u8, u8); 7] = [(4, 0, 4, 0), (14, 2, 13, 2), (7, 1, 19, 1), (12, 0, 3, 0), (2, 0, 14, 2), (7, 19, 14, 2), (3, 14, 5, 0)];
        for x in 0..NCODES {
            for y in 0..NCODES {
                if !is_writer(x) && !is_writer(y) {
                    continue;
                }
                for (a1, b1, a2, b2) in placements {
                    pairs.push((COp { code: x, a: a1, b: b1 }, COp { code: y, a: a2, b: b2 }));
                }
            }
        }
    }
    // every pair in both tiers; quick: 16 schedules per pair (one preemption, early and late points first)
    let (bound, max_runs) = ctx.tier.pick((1usize, 16usize), (2usize, 400usize));
    par_items(ctx, &pairs, |(x, y), st| {
        st.class("pairs-explored");
        explore(ctx, which, &[vec![*x], vec![*y]], bound, max_runs, st);
        if st.want_sample() {
            st.sample(json!({"pair": ConcCase { threads: vec![vec![*x], vec![*y]], schedule: vec![] }.describe(), "preemption_bound": bound}));
        }
    });
    ctx.exhaustive_part(&format!("all schedules with <= {bound} preemption(s) (capped at {max_runs} schedules per pair) for {} ordered operation pairs", pairs.len()));
    // README use case and triples
    let specials: Vec<Vec<Vec<COp>>> = vec![
        vec![vec![COp { code: 33, a: 0, b: 0 }], vec![COp { code: 33, a: 0, b: 0 }]],
        vec![vec![COp { code: 33, a: 0, b: 1 }], vec![COp { code: 33, a: 0, b: 1 }]],
        vec![vec![COp { code: 0, a: 0, b: 0 }], vec![COp { code: 0, a: 0, b: 0 }], vec![COp { code: 27, a: 0, b: 0 }]],
        vec![vec![COp { code: 1, a: 4, b: 0 }], vec![COp { code: 27, a: 4, b: 0 }], vec![COp { code: 2, a: 4, b: 0 }]],
        vec![vec![COp { code: 11, a: 0, b: 0 }], vec![COp { code: 24, a: 7, b: 19 }], vec![COp { code: 20, a: 14, b: 2 }]],
    ];
    let specials: Vec<Vec<Vec<COp>>> = specials.into_iter().filter(|t| which == Which::C15 || t.len() == 2).collect();
    par_items(ctx, &specials, |t, st| {
        explore(ctx, which, t, bound, max_runs * 2, st);
    });
    // (b) random schedules
    if which == Which::C16 {
        // C16: the operation pairs are the curated ones (the recorded finding is keyed by the pair of operation names,
        // so the explored pairs form a fixed finite set); the schedules are random and deeper than in (a)
        let cases = ctx.tier.pick(8_000u64, 150_000u64);
        let npairs = pairs.len();
        let strat = (0..npairs.max(1), proptest::collection::vec(prop_oneof![6 => Just(0u8), 2 => 1u8..3, 1 => any::<u8>()], 0..160));
        run_prop(ctx, "random-schedules", cases, strat, |(pi, schedule), st| {
            let (x, y) = pairs[*pi % npairs.max(1)];
            let c = ConcCase { threads: vec![vec![x], vec![y]], schedule: schedule.clone() };
            match judge(which, &c, st) {
                Ok(()) => Outcome::Pass,
                Err(f) => {
                    if !stable(which, &c, &f.signature) {
                        st.class("unstable(not reported)");
                        return Outcome::Pass;
                    }
                    Outcome::Fail(f)
                }
            }
        });
        return;
    }
    let cases = ctx.tier.pick(10_000u64, 150_000u64);
    let strat = (
        proptest::collection::vec(proptest::collection::vec(cop_strategy(), 1..3), 2..4),
        proptest::collection::vec(prop_oneof![6 => Just(0u8), 2 => 1u8..3, 1 => any::<u8>()], 0..120),
    );
    run_prop(ctx, "random", cases, strat, |(threads, schedule), st| {
        // cap the total number of operations (sequential reference runs are factorial)
        let mut threads = threads.clone();
        if which == Which::C16 {
            // failures are keyed by the pair of operations: exactly two threads with one operation each
            threads.truncate(2);
            for t in threads.iter_mut() {
                t.truncate(1);
            }
        }
        while threads.iter().map(|t| t.len()).sum::<usize>() > 4 {
            if let Some(t) = threads.iter_mut().max_by_key(|t| t.len()) {
                t.pop();
            }
        }
        let c = ConcCase { threads, schedule: schedule.clone() };
        match judge(which, &c, st) {
            Ok(()) => Outcome::Pass,
            Err(f) => {
                if !stable(which, &c, &f.signature) {
                    st.class("unstable(not reported)");
                    return Outcome::Pass;
                }
                Outcome::Fail(f)
            }
        }
    });
}

pub fn replay(ctx: &Ctx, which: Which, case: &Value) {
    let mut st = Stats::new();
    if let Some(c) = ConcCase::from_json(case) {
        if let Err(f) = judge(which, &c, &mut st) {
            ctx.report(f);
        }
    }
    ctx.merge(st);
}
