//! C01 — loading is faithful; load -> serialize -> load is the identity.
use crate::adoc::*;
use crate::engine::*;
use crate::spec::*;
use autosar_data::*;
use proptest::prelude::*;
use serde_json::{json, Value};

#[derive(Clone, Debug)]
pub struct DocCase {
    pub vi: usize,
    pub target: usize,
    pub tape: Vec<u32>,
    pub style: Vec<u32>,
    pub budget: usize,
    pub plain: bool,
}

impl DocCase {
    pub fn to_json(&self) -> Value {
        json!({"kind": "doc", "vi": self.vi, "target": self.target, "tape": self.tape, "style": self.style, "budget": self.budget, "plain": self.plain})
    }
    pub fn from_json(v: &Value) -> Option<DocCase> {
        let arr = |k: &str| -> Vec<u32> { v[k].as_array().map(|a| a.iter().map(|x| x.as_u64().unwrap_or(0) as u32).collect()).unwrap_or_default() };
        Some(DocCase {
            vi: v["vi"].as_u64()? as usize,
            target: v["target"].as_u64()? as usize,
            tape: arr("tape"),
            style: arr("style"),
            budget: v["budget"].as_u64().unwrap_or(30) as usize,
            plain: v["plain"].as_bool().unwrap_or(false),
        })
    }
    pub fn build(&self) -> Option<ADoc> {
        let mut t = Tape::new(&self.tape);
        let mut g = Gen::new(versions()[self.vi], &mut t, GenOpts { budget: self.budget, ..GenOpts::default() });
        g.gen_doc(self.target)
    }
}

pub fn load(bytes: &[u8], strict: bool) -> Result<(AutosarModel, ArxmlFile, Vec<AutosarDataError>), AutosarDataError> {
    let _watch = watch_case(bytes, if strict { "load_buffer(strict)" } else { "load_buffer(lenient)" });
    let m = AutosarModel::new();
    let (f, w) = m.load_buffer(bytes, "test.arxml", strict)?;
    Ok((m, f, w))
}

/// the full C01 oracle for one document in one rendering
pub fn check_doc(case: &DocCase, doc: &ADoc, st: &mut Stats) -> Result<(), Failure> {
    let (bytes, flags) = render(doc, &case.style, case.plain);
    st.eval();
    let nontrivial = flags.escapes || flags.charrefs || flags.comments || flags.mixed || flags.nonstring || flags.single_quotes || flags.padding || case.vi != NVER - 1;
    if nontrivial {
        st.nontrivial(fnv(&bytes));
    }
    for (name, on) in [("escapes", flags.escapes), ("charrefs", flags.charrefs), ("comments", flags.comments), ("mixed-content", flags.mixed), ("non-string-values", flags.nonstring),
        ("single-quoted-attr", flags.single_quotes), ("padding-whitespace", flags.padding), ("processing-instr", flags.pis), ("bom", flags.bom), ("crlf", flags.crlf)] {
        if on {
            st.class(name);
        }
    }
    let text = String::from_utf8_lossy(&bytes).to_string();
    let fail = |sig: &str, msg: String| Failure::new(sig, format!("{msg}\n--- document ({} bytes) ---\n{}", bytes.len(), &text[..text.len().min(3000)]), case.to_json());
    let mut first_extract: Option<ANode> = None;
    for strict in [true, false] {
        let mode = if strict { "strict" } else { "lenient" };
        let (m1, f1, w1) = match load(&bytes, strict) {
            Ok(x) => x,
            Err(e) => {
                // a rejection of a document the generator believes valid is outside C01's quantifier
                st.class("generator_rejected");
                return Err(fail("generator-rejected", format!("{mode} load rejected a generated document: {e}")));
            }
        };
        if !w1.is_empty() {
            st.class("generator_rejected");
            return Err(fail("generator-rejected", format!("lenient load of a generated document warns: {}", w1[0])));
        }
        // A: faithfulness
        let x1 = extract_model(&m1);
        if let Some(d) = doc.root.diff(&x1, "") {
            return Err(fail(&format!("faithful:{}", diff_kind(&d)), format!("{mode} load does not contain what the document says (expected vs loaded): {d}")));
        }
        if f1.version() != doc.version {
            return Err(fail("faithful:version", format!("{mode}: file.version() = {:?}, document says {:?}", f1.version(), doc.version)));
        }
        if f1.xml_standalone() != doc.standalone {
            return Err(fail("faithful:standalone", format!("{mode}: xml_standalone() = {:?}, document says {:?}", f1.xml_standalone(), doc.standalone)));
        }
        if let Some(fx) = &first_extract {
            if let Some(d) = fx.diff(&x1, "") {
                return Err(fail("strict-lenient-differ", format!("strict and lenient load differ: {d}")));
            }
        } else {
            first_extract = Some(x1.clone());
        }
        // B: identity of load -> serialize -> load
        let t1 = f1.serialize().map_err(|e| fail("serialize-error", format!("{mode}: serialize failed: {e}")))?;
        let (m2, f2, w2) = match load(t1.as_bytes(), strict) {
            Ok(x) => x,
            Err(e) => return Err(fail("identity:reload-rejected", format!("{mode}: the serialized text is rejected on reload: {e}\n--- serialized ---\n{}", &t1[..t1.len().min(2000)]))),
        };
        if !w2.is_empty() {
            return Err(fail("identity:reload-warns", format!("{mode}: reload of the serialized text warns: {}", w2[0])));
        }
        let x2 = extract_model(&m2);
        if let Some(d) = x1.diff(&x2, "") {
            return Err(fail(&format!("identity:{}", diff_kind(&d)), format!("{mode}: load(serialize(m)) differs from m: {d}\n--- serialized ---\n{}", &t1[..t1.len().min(2000)])));
        }
        if f2.version() != f1.version() || f2.xml_standalone() != f1.xml_standalone() {
            return Err(fail("identity:file-attrs", format!("{mode}: version/standalone differ after reload")));
        }
        let t2 = f2.serialize().map_err(|e| fail("serialize-error", format!("{mode}: second serialize failed: {e}")))?;
        if t2 != t1 {
            return Err(fail("identity:bytes", format!("{mode}: serializing the reloaded model is not byte-identical")));
        }
        // C: the same holds when the file is not alone: a model that already holds a small file of ANOTHER schema version
        // (a package of its own) must give the document's file the same text and version as the single-file model did
        {
            let cv = versions()[(case.vi + 1 + (bytes.len() % (NVER - 1))) % NVER];
            let companion = format!("{}<AR-PACKAGES><AR-PACKAGE><SHORT-NAME>ZzVerifCompanion</SHORT-NAME></AR-PACKAGE></AR-PACKAGES></AUTOSAR>", hdr(cv));
            let m3 = AutosarModel::new();
            if m3.load_buffer(companion.as_bytes(), "companion.arxml", strict).is_ok() {
                let _watch = watch_case(&bytes, "load_buffer(second file)");
                match m3.load_buffer(&bytes, "test.arxml", strict) {
                    Ok((f3, _)) => {
                        st.class("companion-file-of-another-version:loaded");
                        let t3 = f3.serialize().map_err(|e| fail("serialize-error", format!("{mode}: serialize in a two-file model failed: {e}")))?;
                        if f3.version() != doc.version {
                            return Err(fail("faithful:version-in-multi-file-model", format!("{mode}: loaded next to a {cv:?} file, file.version() = {:?}, document says {:?}", f3.version(), doc.version)));
                        }
                        // the root element is one object shared by the files of a model (its attributes - incl. their order - and
                        // its comment exist once per model), and an element that is empty in this file only is laid out differently:
                        // the file's text is therefore judged by what it LOADS to, with the root's attributes reduced to the schema
                        // location and the root's comment left out
                        let a = t3.find("<AUTOSAR").unwrap_or(0);
                        let tag3 = &t3[a..t3[a..].find('>').map(|i| a + i + 1).unwrap_or(a)];
                        let loc = format!("http://autosar.org/schema/r4.0 {}\"", doc.version.filename());
                        if !tag3.contains(&loc) {
                            return Err(fail("identity:schema-location-in-multi-file-model", format!("{mode}: loaded into a model that already holds a file of version {cv:?}, the document's file (version {:?}) is written with the root tag {tag3}", doc.version)));
                        }
                        let (m4, f4, _) = match load(t3.as_bytes(), strict) {
                            Ok(x) => x,
                            Err(e) => return Err(fail("identity:multi-file-text-rejected", format!("{mode}: the text written for the document's file in a two-file model (other file: {cv:?}) is rejected on reload: {e}\n--- serialized ---\n{}", &t3[..t3.len().min(2000)]))),
                        };
                        if f4.version() != doc.version {
                            return Err(fail("identity:schema-location-in-multi-file-model", format!("{mode}: the text written in a two-file model reloads as version {:?}, document says {:?}", f4.version(), doc.version)));
                        }
                        let (mut xa, mut xb) = (x1.clone(), extract_model(&m4));
                        for x in [&mut xa, &mut xb] {
                            x.comment = None;
                            x.attrs.clear();
                            // AR-PACKAGES is shared with the companion file as well (one comment / attribute list per model)
                            for c in x.content.iter_mut() {
                                if let AContent::Elem(n) = c {
                                    if n.name == ElementName::ArPackages {
                                        n.comment = None;
                                        n.attrs.clear();
                                    }
                                }
                            }
                        }
                        if let Some(d) = xa.diff(&xb, "") {
                            return Err(fail("identity:text-depends-on-other-files", format!("{mode}: loaded into a model that already holds a file of version {cv:?} (one package of its own), the document's file serializes to text that loads to something else than the document: {d}\n--- serialized ---\n{}", &t3[..t3.len().min(2000)])));
                        }
                    }
                    Err(_) => st.class("companion-file-of-another-version:merge-rejected"),
                }
            }
        }
    }
    if st.want_sample() && bytes.len() < 900 && (flags.escapes || flags.comments) {
        st.sample(json!({"version": format!("{:?}", doc.version), "rendered_document": text, "elements": doc.root.count()}));
    }
    Ok(())
}

/// C01 second sentence on an ARBITRARY byte string: whenever load_buffer accepts the input (strict, or lenient with or
/// without warnings), serializing the file and loading that text again yields an identical model, and serializing once
/// more yields byte-identical text. (What the model must contain is only known for constructed documents: check_doc.)
pub fn oracle_c01_bytes(bytes: &[u8], st: &mut Stats) -> Result<(), Failure> {
    st.eval();
    let fail = |sig: &str, msg: String| Failure::new(sig, format!("{msg}\n--- input ({} bytes) ---\n{}", bytes.len(), String::from_utf8_lossy(&bytes[..bytes.len().min(3000)])), json!({"kind": "bytes", "input": bytes_json(bytes)}));
    for strict in [true, false] {
        let mode = if strict { "strict" } else { "lenient" };
        // panics are C02's business
        let Ok(r) = no_panic(|| load(bytes, strict)) else { continue };
        let Ok((m1, f1, w1)) = r else {
            st.class("bytes:rejected");
            continue;
        };
        st.class(if w1.is_empty() { "bytes:accepted-clean" } else { "bytes:accepted-with-warnings" });
        st.nontrivial(fnv(bytes) ^ strict as u64);
        let x1 = extract_model(&m1);
        // recorded finding KF-C01-2: a comment or processing instruction inside character data splits the text into
        // several content items of a character-data element (only the first is read and written)
        // (in mixed content: two adjacent text items, which no XML text can express)
        let split_text = m1.elements_dfs().any(|(_, e)| {
            (e.content_type() == ContentType::CharacterData && e.content_item_count() > 1) || {
                let c: Vec<bool> = e.content().map(|c| matches!(c, ElementContent::CharacterData(_))).collect();
                c.windows(2).any(|w| w[0] && w[1])
            }
        });
        let fail = |sig: &str, msg: String| if split_text { fail("comment-inside-text-drops-rest", msg) } else { fail(sig, msg) };
        if split_text {
            st.class("bytes:text-split-by-comment-or-pi(KF-C01-2)");
        }
        let t1 = match no_panic(|| f1.serialize()) {
            Ok(Ok(t)) => t,
            Ok(Err(e)) => return Err(fail("bytes-identity:serialize-error", format!("{mode}: serialize of an accepted input failed: {e}"))),
            Err(p) => return Err(fail(&format!("bytes-identity:serialize-panic:{}", panic_site(&p)), format!("{mode}: serialize panicked: {p}"))),
        };
        // a clean load must reload cleanly in the same mode; a load with warnings has kept something invalid or dropped
        // something, so its text is reloaded leniently and may warn again - the model must still be the same
        let (m2, f2, w2) = match no_panic(|| load(t1.as_bytes(), strict && w1.is_empty())) {
            Ok(Ok(x)) => x,
            Ok(Err(e)) => return Err(fail("bytes-identity:reload-rejected", format!("{mode}: the serialized text of an accepted input is rejected on reload: {e}\n--- serialized ---\n{}", &t1[..t1.len().min(2000)]))),
            Err(p) => return Err(fail(&format!("bytes-identity:reload-panic:{}", panic_site(&p)), format!("{mode}: reload panicked: {p}"))),
        };
        if w1.is_empty() && !w2.is_empty() {
            return Err(fail("bytes-identity:reload-warns", format!("{mode}: reload of the serialized text warns: {}\n--- serialized ---\n{}", w2[0], &t1[..t1.len().min(2000)])));
        }
        let x2 = extract_model(&m2);
        if let Some(d) = x1.diff(&x2, "") {
            return Err(fail(&format!("bytes-identity:{}", diff_kind(&d)), format!("{mode}: load(serialize(m)) differs from m: {d}\n--- serialized ---\n{}", &t1[..t1.len().min(2000)])));
        }
        if f2.version() != f1.version() || f2.xml_standalone() != f1.xml_standalone() {
            return Err(fail("bytes-identity:file-attrs", format!("{mode}: version/standalone differ after reload")));
        }
        match no_panic(|| f2.serialize()) {
            Ok(Ok(t2)) => {
                if t2 != t1 {
                    return Err(fail("bytes-identity:bytes", format!("{mode}: serializing the reloaded model is not byte-identical\n--- first ---\n{}\n--- second ---\n{}", &t1[..t1.len().min(1500)], &t2[..t2.len().min(1500)])));
                }
            }
            _ => return Err(fail("bytes-identity:serialize-error", format!("{mode}: second serialize failed"))),
        }
    }
    Ok(())
}

fn diff_kind(d: &str) -> &'static str {
    if d.contains(": value ") {
        "value"
    } else if d.contains(": attributes ") {
        "attributes"
    } else if d.contains(": comment ") {
        "comment"
    } else if d.contains(" content items vs ") {
        "content-count"
    } else if d.contains(": element type ") {
        "element-type"
    } else {
        "structure"
    }
}

fn run_case(ctx: &Ctx, case: &DocCase, st: &mut Stats) -> Outcome {
    let Some(doc) = case.build() else {
        return Outcome::Discard;
    };
    let _ = ctx;
    // a panic inside load / serialize is a failure of this property as well (and C02's / C12's): it must not take the
    // harness down
    let mut st2 = Stats::new();
    let r = no_panic(|| check_doc(case, &doc, &mut st2));
    st.merge(st2);
    match r {
        Ok(Ok(())) => Outcome::Pass,
        Ok(Err(f)) => Outcome::Fail(f),
        Err(p) => Outcome::Fail(Failure::new(format!("panic:{}", panic_site(&p)), format!("load / serialize of a generated document panicked: {p}"), case.to_json())),
    }
}

pub fn reachable(vi: usize) -> Vec<usize> {
    let si = SpecIndex::get();
    (1..si.types.len()).filter(|t| si.depth[vi][*t] != u16::MAX).collect()
}

pub fn run(ctx: &Ctx) {
    ctx.set_rule(
        "Specification-derived documents (an element of a chosen type reached by its witness path, filled with grammar-valid content, values from \
         per-spec generators incl. members of the published patterns) rendered in a generated textual style, loaded strictly and leniently. Oracle: constructed truth \
         (extract(load(render(d))) == d) plus round trip (load(serialize(m)) == m, serialize byte-identical). Non-trivial: the rendered text contains an \
         escape / character reference, comment, mixed content, non-string value, single-quoted attribute, padding whitespace, or a version other than the latest; distinct by hash of the bytes.",
    );
    ctx.assume("values contain \\n but no \\r; whitespace-only values are not generated; '>' is always escaped inside attribute values; buffers are valid UTF-8");
    let si = SpecIndex::get();

    // (i) type sweep: (version, type) pairs
    let mut pairs: Vec<(usize, usize, u64)> = vec![];
    let mut sm = SplitMix(ctx.seed_for("sweep"));
    for vi in 0..NVER {
        for t in reachable(vi) {
            let et = si.types[t].etype;
            let always = matches!(et.content_mode(), autosar_data_specification::ContentMode::Mixed)
                || matches!(et.chardata_spec(), Some(autosar_data_specification::CharacterDataSpec::UnsignedInteger) | Some(autosar_data_specification::CharacterDataSpec::Float)
                    | Some(autosar_data_specification::CharacterDataSpec::String { preserve_whitespace: true, .. }));
            let r = sm.next();
            let reps = ctx.tier.pick(1, 4);
            if ctx.tier == Tier::Thorough || always || r % 100 < 4 {
                for k in 0..reps {
                    pairs.push((vi, t, mix(r, k)));
                }
            }
        }
    }
    par_items(ctx, &pairs, |(vi, t, r), st| {
        let mut sm = SplitMix(*r);
        let case = DocCase {
            vi: *vi,
            target: *t,
            tape: (0..60).map(|_| sm.next() as u32).collect(),
            style: (0..200).map(|_| sm.next() as u32).collect(),
            budget: 12,
            plain: false,
        };
        st.class("sweep-pairs");
        if let Outcome::Fail(f) = run_case(ctx, &case, st) {
            ctx.report(f);
        }
    });

    // (ii) random documents x styles through proptest (shrinkable)
    let cases = ctx.tier.pick(400_000u64, 3_000_000u64);
    let reach: Vec<Vec<usize>> = (0..NVER).map(reachable).collect();
    let strat = (0..NVER, any::<u32>(), proptest::collection::vec(any::<u32>(), 0..160), proptest::collection::vec(any::<u32>(), 0..260), prop_oneof![Just(8usize), Just(30usize), Just(120usize)], any::<u8>());
    run_prop(ctx, "docs", cases, strat, |(vi, tsel, tape, style, budget, pl), st| {
        let r = &reach[*vi];
        let target = r[((*tsel as u64 * r.len() as u64) >> 32) as usize];
        let case = DocCase { vi: *vi, target, tape: tape.clone(), style: style.clone(), budget: *budget, plain: *pl < 16 };
        run_case(ctx, &case, st)
    });

    // (iii) identity half of C01 on inputs that are NOT generated as valid: mutated documents (most stay acceptable,
    // at least leniently), header variants, truncations
    let cases = ctx.tier.pick(300_000u64, 3_000_000u64);
    run_prop(ctx, "bytes-identity", cases, crate::inputs::mutated_doc_strategy(), |v, st| {
        let Some(bytes) = crate::inputs::build_mutated(&reach, v) else {
            return Outcome::Discard;
        };
        st.class("mutated-doc");
        match oracle_c01_bytes(&bytes, st) {
            Ok(()) => Outcome::Pass,
            Err(f) => Outcome::Fail(f),
        }
    });

    // (iv) coverage-guided stage (thorough tier): the same byte-level oracle inside a libFuzzer target
    if ctx.tier == Tier::Thorough {
        crate::fuzzstage::run(ctx, "C01", oracle_c01_bytes);
    }

    regressions(ctx);
}

/// demonstrations of the recorded findings (each prints its KNOWN-FINDING line while it reproduces)
fn regressions(ctx: &Ctx) {
    let mut st = Stats::new();
    let h = hdr(AutosarVersion::Autosar_00050);
    // KF-C01-1: pattern-typed values are not unescaped
    {
        let doc = format!("{h}<AR-PACKAGES><AR-PACKAGE><SHORT-NAME>P</SHORT-NAME><ELEMENTS><SYSTEM><SHORT-NAME>S</SHORT-NAME><ADMIN-DATA><DOC-REVISIONS><DOC-REVISION><REVISION-LABEL>1.0.0;a&amp;b</REVISION-LABEL></DOC-REVISION></DOC-REVISIONS></ADMIN-DATA></SYSTEM></ELEMENTS></AR-PACKAGE></AR-PACKAGES></AUTOSAR>");
        st.eval();
        if let Ok((m, f, _)) = load(doc.as_bytes(), true) {
            let v = m.elements_dfs().find(|(_, e)| e.element_name() == ElementName::RevisionLabel).and_then(|(_, e)| e.character_data()).and_then(|c| c.string_value());
            let t1 = f.serialize().unwrap_or_default();
            if v.as_deref() != Some("1.0.0;a&b") || !t1.contains("1.0.0;a&amp;b<") {
                ctx.report(Failure::new("pattern-value-not-unescaped", format!("REVISION-LABEL '1.0.0;a&amp;b' loads as {:?} and is written as {:?}", v, t1.split("REVISION-LABEL>").nth(1)), json!({"kind":"bytes","input": bytes_json(doc.as_bytes())})));
            }
        }
    }
    // KF-C01-2: comment inside character data drops the rest of the value
    {
        let doc = format!("{h}<AR-PACKAGES><AR-PACKAGE><SHORT-NAME>ab<!--c-->cd</SHORT-NAME></AR-PACKAGE></AR-PACKAGES></AUTOSAR>");
        st.eval();
        if let Ok((m, _, w)) = load(doc.as_bytes(), true) {
            let name = m.root_element().get_sub_element(ElementName::ArPackages).and_then(|p| p.get_sub_element(ElementName::ArPackage)).and_then(|p| p.item_name());
            if name.as_deref() != Some("abcd") && w.is_empty() {
                ctx.report(Failure::new("comment-inside-text-drops-rest", format!("<SHORT-NAME>ab<!--c-->cd</SHORT-NAME> loads strictly as {:?}", name), json!({"kind":"bytes","input": bytes_json(doc.as_bytes())})));
            }
        }
    }
    ctx.merge(st);
}

pub fn replay(ctx: &Ctx, case: &Value) {
    let mut st = Stats::new();
    if let Some(c) = DocCase::from_json(case) {
        if let Some(doc) = c.build() {
            if let Err(f) = check_doc(&c, &doc, &mut st) {
                ctx.report(f);
            }
        }
    } else if case["kind"] == "bytes" {
        let b = bytes_from_json(&case["input"]);
        if let Err(f) = oracle_c01_bytes(&b, &mut st) {
            ctx.report(f);
        }
        regressions(ctx);
    } else {
        regressions(ctx);
    }
    ctx.merge(st);
}

