//! Deterministic scheduler over the lock shim (hook feature `verif`).
//! Controlled threads are real OS threads of which exactly one runs at a time; every lock
//! REQUEST is a scheduling point at which the schedule (a vector of small integers, 0 = "let
//! the running thread continue") picks the next thread or fires a pending timeout. A logical
//! lock table mirrors parking_lot's policy (writer preference: a waiting writer blocks new
//! readers, also recursive ones; try_write needs a completely free lock with nobody parked).
//! The real lock is only taken after the logical table grants it, so a run can never hang.
#![allow(dead_code)]

use autosar_data::verif::{set_thread_monitor, LockEvent, LockKind, LockMode, LockMonitor};
use std::collections::HashMap;
use std::sync::{Arc, Condvar, Mutex};

pub const SCHED_ABORT: &str = "VERIF-SCHED-ABORT";

#[derive(Clone, Debug, PartialEq, Eq)]
pub struct Req {
    pub lock: usize,
    pub class: String,
    pub mode: LockMode,
    pub kind: LockKind,
    pub site: String,
}

#[derive(Clone, Debug, PartialEq, Eq)]
enum Status {
    Ready,
    Waiting(Req),
    Finished,
}

#[derive(Clone, Copy, Debug, PartialEq, Eq)]
enum Action {
    Go,
    Grant,
    Timeout,
}

#[derive(Default, Clone, Debug)]
struct LState {
    writer: Option<usize>,
    readers: Vec<usize>,
    /// threads blocked in a write request, in arrival order
    waiting_writers: Vec<usize>,
    /// threads blocked in a read request
    waiting_readers: Vec<usize>,
}

#[derive(Clone, Debug)]
pub struct Held {
    pub lock: usize,
    pub class: String,
    pub mode: LockMode,
    pub site: String,
}

#[derive(Clone, Debug)]
pub struct DeadlockInfo {
    /// per blocked thread: (thread, request, locks held)
    pub blocked: Vec<(usize, Req, Vec<Held>)>,
}

struct Inner {
    n: usize,
    current: usize,
    status: Vec<Status>,
    action: Vec<Action>,
    held: Vec<Vec<Held>>,
    locks: HashMap<usize, LState>,
    schedule: Vec<u8>,
    pos: usize,
    /// number of options at every scheduling point (for systematic exploration) and the choice made
    pub points: Vec<(u8, u8)>,
    preemptions: usize,
    deadlock: Option<DeadlockInfo>,
    abort: bool,
    steps: usize,
    /// lock classes two threads contended for
    contention: bool,
    timeouts_fired: usize,
}

pub struct Sched {
    inner: Mutex<Inner>,
    cv: Condvar,
}

pub struct RunInfo {
    pub points: Vec<(u8, u8)>,
    pub preemptions: usize,
    pub deadlock: Option<DeadlockInfo>,
    pub contention: bool,
    pub steps: usize,
    pub timeouts_fired: usize,
    pub aborted: bool,
}

fn short_class(c: &str) -> String {
    c.rsplit("::").next().unwrap_or(c).trim_end_matches('>').to_string()
}

fn site(ev: &LockEvent) -> String {
    let f = ev.site.file().rsplit('/').next().unwrap_or("");
    format!("{}:{}", f, ev.site.line())
}

impl Inner {
    fn grantable(&self, t: usize, r: &Req) -> bool {
        let st = self.locks.get(&r.lock).cloned().unwrap_or_default();
        match r.mode {
            LockMode::Read => {
                // writer preference: no new readers while a writer holds or waits
                st.writer.is_none() && st.waiting_writers.iter().all(|w| *w == t)
            }
            LockMode::Write => {
                let free = st.writer.is_none() && st.readers.is_empty();
                match r.kind {
                    LockKind::Try => free && st.waiting_writers.is_empty() && st.waiting_readers.is_empty(),
                    _ => free && st.waiting_writers.first().is_none_or(|w| *w == t),
                }
            }
        }
    }

    fn enqueue(&mut self, t: usize, r: &Req) {
        let st = self.locks.entry(r.lock).or_default();
        match r.mode {
            LockMode::Write => {
                if !st.waiting_writers.contains(&t) {
                    st.waiting_writers.push(t);
                }
            }
            LockMode::Read => {
                if !st.waiting_readers.contains(&t) {
                    st.waiting_readers.push(t);
                }
            }
        }
    }

    fn dequeue(&mut self, t: usize, r: &Req) {
        if let Some(st) = self.locks.get_mut(&r.lock) {
            st.waiting_writers.retain(|x| *x != t);
            st.waiting_readers.retain(|x| *x != t);
        }
    }

    fn grant(&mut self, t: usize, r: &Req) {
        self.dequeue(t, r);
        let st = self.locks.entry(r.lock).or_default();
        match r.mode {
            LockMode::Read => st.readers.push(t),
            LockMode::Write => st.writer = Some(t),
        }
        self.held[t].push(Held { lock: r.lock, class: r.class.clone(), mode: r.mode, site: r.site.clone() });
    }

    /// options at a scheduling point: (thread, action); `me` first when enabled
    fn options(&self, me: usize) -> Vec<(usize, Action)> {
        let mut out = vec![];
        let mut order: Vec<usize> = vec![me];
        order.extend((0..self.n).filter(|t| *t != me));
        for t in order {
            match &self.status[t] {
                Status::Ready => out.push((t, Action::Go)),
                Status::Waiting(r) => {
                    if self.grantable(t, r) {
                        out.push((t, Action::Grant));
                    } else if r.kind != LockKind::Block {
                        out.push((t, Action::Timeout));
                    }
                }
                Status::Finished => {}
            }
        }
        out
    }
}

impl Sched {
    pub fn new(n: usize, schedule: Vec<u8>) -> Arc<Sched> {
        Arc::new(Sched {
            inner: Mutex::new(Inner {
                n,
                current: 0,
                status: vec![Status::Ready; n],
                action: vec![Action::Go; n],
                held: vec![vec![]; n],
                locks: HashMap::new(),
                schedule,
                pos: 0,
                points: vec![],
                preemptions: 0,
                deadlock: None,
                abort: false,
                steps: 0,
                contention: false,
                timeouts_fired: 0,
            }),
            cv: Condvar::new(),
        })
    }

    /// scheduling point of thread `me` (its status is already set). Returns the action chosen for `me`
    /// once it is `me`'s turn again; panics with SCHED_ABORT when the run is aborted (deadlock / step limit).
    fn point(&self, me: usize) -> Action {
        let mut g = self.inner.lock().unwrap();
        g.steps += 1;
        if g.steps > 20_000 {
            g.abort = true;
        }
        if !g.abort {
            let opts = g.options(me);
            if opts.is_empty() {
                if g.status.iter().any(|s| *s != Status::Finished) {
                    // every unfinished thread waits on a non-timed request: deadlock
                    let blocked = (0..g.n)
                        .filter_map(|t| match &g.status[t] {
                            Status::Waiting(r) => Some((t, r.clone(), g.held[t].clone())),
                            _ => None,
                        })
                        .collect();
                    g.deadlock = Some(DeadlockInfo { blocked });
                    g.abort = true;
                }
            } else {
                let c = g.schedule.get(g.pos).copied().unwrap_or(0) as usize;
                g.pos += 1;
                let k = c % opts.len();
                g.points.push((opts.len().min(255) as u8, k as u8));
                let (t, a) = opts[k];
                if opts[0].0 == me && t != me {
                    g.preemptions += 1;
                }
                if a == Action::Timeout {
                    g.timeouts_fired += 1;
                }
                g.action[t] = a;
                g.current = t;
            }
        }
        self.cv.notify_all();
        loop {
            if g.abort {
                drop(g);
                std::panic::panic_any(SCHED_ABORT.to_string());
            }
            if g.current == me {
                return g.action[me];
            }
            g = self.cv.wait(g).unwrap();
        }
    }

    pub fn start(&self, me: usize) {
        // wait for the first turn (thread 0 starts)
        let mut g = self.inner.lock().unwrap();
        loop {
            if g.abort {
                drop(g);
                std::panic::panic_any(SCHED_ABORT.to_string());
            }
            if g.current == me {
                return;
            }
            g = self.cv.wait(g).unwrap();
        }
    }

    pub fn finish(&self, me: usize) {
        let mut g = self.inner.lock().unwrap();
        g.status[me] = Status::Finished;
        // release anything still held (after a panic inside the library)
        let held = std::mem::take(&mut g.held[me]);
        for h in held {
            if let Some(st) = g.locks.get_mut(&h.lock) {
                match h.mode {
                    LockMode::Read => {
                        if let Some(p) = st.readers.iter().position(|x| *x == me) {
                            st.readers.remove(p);
                        }
                    }
                    LockMode::Write => st.writer = None,
                }
            }
        }
        if g.abort {
            self.cv.notify_all();
            return;
        }
        // hand over to somebody else
        let opts = g.options(me);
        if opts.is_empty() {
            if g.status.iter().any(|s| *s != Status::Finished) {
                let blocked = (0..g.n)
                    .filter_map(|t| match &g.status[t] {
                        Status::Waiting(r) => Some((t, r.clone(), g.held[t].clone())),
                        _ => None,
                    })
                    .collect();
                g.deadlock = Some(DeadlockInfo { blocked });
                g.abort = true;
            }
        } else {
            let c = g.schedule.get(g.pos).copied().unwrap_or(0) as usize;
            g.pos += 1;
            let k = c % opts.len();
            g.points.push((opts.len().min(255) as u8, k as u8));
            let (t, a) = opts[k];
            if a == Action::Timeout {
                g.timeouts_fired += 1;
            }
            g.action[t] = a;
            g.current = t;
        }
        self.cv.notify_all();
    }

    pub fn info(&self) -> RunInfo {
        let g = self.inner.lock().unwrap();
        RunInfo { points: g.points.clone(), preemptions: g.preemptions, deadlock: g.deadlock.clone(), contention: g.contention, steps: g.steps, timeouts_fired: g.timeouts_fired, aborted: g.abort }
    }
}

pub struct ThreadMon {
    pub sched: Arc<Sched>,
    pub me: usize,
}

// used only from its own thread
unsafe impl Send for ThreadMon {}
unsafe impl Sync for ThreadMon {}

impl LockMonitor for ThreadMon {
    fn request(&self, ev: &LockEvent) -> bool {
        let r = Req { lock: ev.lock, class: short_class(ev.class), mode: ev.mode, kind: ev.kind, site: site(ev) };
        {
            let mut g = self.sched.inner.lock().unwrap();
            if g.abort {
                drop(g);
                std::panic::panic_any(SCHED_ABORT.to_string());
            }
            // contention: somebody else holds or waits for this lock
            if let Some(st) = g.locks.get(&r.lock) {
                let me = self.me;
                if st.writer.is_some_and(|w| w != me) || st.readers.iter().any(|x| *x != me) || st.waiting_writers.iter().any(|x| *x != me) {
                    g.contention = true;
                }
            }
            if r.kind == LockKind::Try {
                // try_write never blocks: it is a scheduling point, then succeeds or fails at once
                g.status[self.me] = Status::Ready;
            } else {
                if !g.grantable(self.me, &r) {
                    g.enqueue(self.me, &r);
                }
                g.status[self.me] = Status::Waiting(r.clone());
            }
        }
        let a = self.sched.point(self.me);
        let mut g = self.sched.inner.lock().unwrap();
        g.status[self.me] = Status::Ready;
        if r.kind == LockKind::Try {
            if g.grantable(self.me, &r) {
                g.grant(self.me, &r);
                return true;
            }
            return false;
        }
        match a {
            Action::Grant => {
                debug_assert!(g.grantable(self.me, &r));
                g.grant(self.me, &r);
                true
            }
            Action::Timeout => {
                g.dequeue(self.me, &r);
                false
            }
            Action::Go => {
                // chosen as "ready": can only happen if the request was grantable at the point
                if g.grantable(self.me, &r) {
                    g.grant(self.me, &r);
                    true
                } else {
                    g.dequeue(self.me, &r);
                    false
                }
            }
        }
    }

    fn release(&self, ev: &LockEvent) {
        let mut g = self.sched.inner.lock().unwrap();
        let me = self.me;
        if let Some(p) = g.held[me].iter().rposition(|h| h.lock == ev.lock && h.mode == ev.mode) {
            g.held[me].remove(p);
        } else {
            return;
        }
        if let Some(st) = g.locks.get_mut(&ev.lock) {
            match ev.mode {
                LockMode::Read => {
                    if let Some(p) = st.readers.iter().position(|x| *x == me) {
                        st.readers.remove(p);
                    }
                }
                LockMode::Write => {
                    if st.writer == Some(me) {
                        st.writer = None;
                    }
                }
            }
        }
    }
}

/// Run `bodies` (one closure per thread) under the schedule. Each body runs with the thread monitor
/// installed; a body that is unwound (abort after a deadlock / step limit, or a panic in the library) yields Err(message).
pub fn run_threads<T: Send + 'static>(schedule: Vec<u8>, bodies: Vec<Box<dyn FnOnce() -> T + Send>>) -> (Vec<Result<T, String>>, RunInfo) {
    let n = bodies.len();
    let sched = Sched::new(n, schedule);
    let mut handles = vec![];
    for (i, body) in bodies.into_iter().enumerate() {
        let s = sched.clone();
        handles.push(
            std::thread::Builder::new()
                .stack_size(8 << 20)
                .spawn(move || {
                    let mon = Arc::new(ThreadMon { sched: s.clone(), me: i });
                    set_thread_monitor(Some(mon));
                    let s2 = s.clone();
                    let r = crate::engine::no_panic(move || {
                        s2.start(i);
                        body()
                    });
                    set_thread_monitor(None);
                    s.finish(i);
                    r
                })
                .expect("spawn"),
        );
    }
    let results: Vec<Result<T, String>> = handles.into_iter().map(|h| h.join().unwrap_or_else(|_| Err("thread panicked outside the body".to_string()))).collect();
    let info = sched.info();
    (results, info)
}
