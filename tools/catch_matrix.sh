#!/bin/bash
# tools/catch_matrix.sh : apply every seeded change in turn and run the quick tier of the checks named in its meta.json
# (first entries of caught_by); writes seeded/CATCH_MATRIX.txt. /repo must be clean; it is restored after every change.
cd /verif || exit 2
OUT=seeded/CATCH_MATRIX.txt
: > $OUT
for d in seeded/C*/; do
  ID=$(basename $d)
  CHECKS=$(python3 -c "
import json,re
m=json.load(open('$d/meta.json'))
ids=[]
for c in m['caught_by']:
    for x in re.findall(r'C\d\d', c.split(':')[0]):
        if x not in ids: ids.append(x)
print(' '.join(ids[:2]) if ids else '$ID'[:3])")
  RES=$(tools/try_patch.sh /verif/$d/patch.diff quick $CHECKS 2>&1 | grep "exit=" | tr '\n' ' ' | cut -c1-300)
  echo "$ID : $RES" | tee -a $OUT
done
