//! C15 / C16 — concurrent operations under the deterministic scheduler: catalogue of operations on
//! a fixture with named roles, controlled runs, sequential reference runs, exploration.
#![allow(dead_code)]

use crate::engine::*;
use crate::hist::{World, FIXTURE_DOC, FIXTURE_DOC_B};
use crate::inv::*;
use crate::sched::*;
use autosar_data::*;
use proptest::prelude::*;
use serde_json::{json, Value};

#[derive(Clone, Copy, Debug, PartialEq, Eq)]
pub struct COp {
    pub code: u8,
    pub a: u8,
    pub b: u8,
}

pub const OP_NAMES: [&str; 39] = [
    "file.serialize", "elem.serialize", "path", "xml_path", "model", "file_membership", "elements_dfs", "sub_elements", "identifiable_elements", "get_element_by_path", "get_references_to", "check_references",
    "check_version_compatibility", "cmp", "debug", "item_name+character_data", "get_reference_target", "create_sub_element", "create_named_sub_element", "remove_sub_element", "set_item_name", "move_element_here",
    "create_copied_sub_element", "set_character_data", "set_reference_target", "set_attribute", "remove_attribute", "set_comment", "model.sort", "create_file", "remove_file", "add_to_file", "remove_from_file", "load_buffer", "duplicate", "elem.sort", "set_filename", "remove_character_data", "position",
];
pub const NCODES: u8 = 39;
pub fn is_writer(code: u8) -> bool {
    code >= 17 && code != 38
}

pub struct Fix {
    pub model: AutosarModel,
    pub other: AutosarModel,
    pub files: Vec<ArxmlFile>,
    pub roles: Vec<Element>,
    /// parent of each role element at fixture time
    pub role_parents: Vec<Option<Element>>,
    pub paths: Vec<&'static str>,
}

pub const PATHS: [&str; 8] = ["/a", "/a/a1", "/a/b", "/pkg1/x9", "/pkg10/x9", "/pkg1/a2", "/pkg1/nothing", "/a/x10"];

impl Fix {
    pub fn new() -> Fix {
        let model = AutosarModel::new();
        let (f0, _) = model.load_buffer(FIXTURE_DOC.as_bytes(), "base.arxml", true).expect("fixture");
        // a second file in the same model: shares /a (x10 in both files, x1a only here) and brings /b
        let (f2, _) = model.load_buffer(FIXTURE_DOC_B.as_bytes(), "second.arxml", true).expect("fixture B");
        let other = AutosarModel::new();
        let f1 = other.create_file("other.arxml", AutosarVersion::Autosar_00050).unwrap();
        let _ = other.root_element().create_sub_element(ElementName::ArPackages).and_then(|p| p.create_named_sub_element(ElementName::ArPackage, "o"));
        let g = |p: &str| model.get_element_by_path(p).expect("fixture path");
        let root = model.root_element();
        let pkgs = root.get_sub_element(ElementName::ArPackages).unwrap();
        let a = g("/a");
        let a_elems = a.get_sub_element(ElementName::Elements).unwrap();
        let sys = g("/a/a1");
        let fib = sys.get_sub_element(ElementName::FibexElements).unwrap();
        let cond = fib.get_sub_element(ElementName::FibexElementRefConditional).unwrap();
        let fref = cond.get_sub_element(ElementName::FibexElementRef).unwrap();
        let cm = g("/a/b");
        let uref = cm.get_sub_element(ElementName::UnitRef).unwrap();
        let scales = cm.get_sub_element(ElementName::CompuInternalToPhys).unwrap().get_sub_element(ElementName::CompuScales).unwrap();
        let scale = scales.get_sub_element(ElementName::CompuScale).unwrap();
        let unit = g("/a/x10");
        let pkg1 = g("/pkg1");
        let isig = g("/pkg1/x9");
        let ssref = isig.get_sub_element(ElementName::SystemSignalRef).unwrap();
        let ssig = g("/pkg1/a2");
        let sub = g("/pkg1/a");
        let pkg10 = g("/pkg10");
        let isig10 = g("/pkg10/x9");
        let l2 = isig10.get_sub_element(ElementName::Desc).unwrap().get_sub_element(ElementName::L2).unwrap();
        let sn = sys.get_sub_element(ElementName::ShortName).unwrap();
        let opkg = other.get_element_by_path("/o").unwrap();
        // 23.. : elements with file sets of their own (second.arxml only)
        let x1a = g("/a/x1a");
        let bpkg = g("/b");
        let b_elems = bpkg.get_sub_element(ElementName::Elements).unwrap();
        let b_a1 = g("/b/a1");
        let roles = vec![root, pkgs, a, a_elems, sys, fib, cond, fref, cm, uref, scales, scale, unit, pkg1, isig, ssref, ssig, sub, pkg10, isig10, l2, sn, opkg, x1a, b_elems, bpkg, b_a1];
        let role_parents = roles.iter().map(|e| e.parent().ok().flatten()).collect();
        Fix { model, other, files: vec![f0, f1, f2], roles, role_parents, paths: PATHS.to_vec() }
    }

    pub fn role(&self, i: u8) -> &Element {
        &self.roles[i as usize % self.roles.len()]
    }

    /// execute one operation; `tag` makes created names unique
    pub fn exec(&self, o: &COp, tag: &str) -> String {
        let e = self.role(o.a);
        let f = self.role(o.b);
        let path = self.paths[o.b as usize % self.paths.len()];
        let r = |x: Result<String, AutosarDataError>| match x {
            Ok(s) => format!("Ok({s})"),
            Err(e) => format!("Err({})", crate::hist::err_variant(&e)),
        };
        match o.code {
            0 => r(self.files[[0, 2][o.a as usize % 2]].serialize().map(|s| format!("{:x}", fnv(s.as_bytes())))),
            1 => format!("{:x}", fnv(e.serialize().as_bytes())),
            2 => r(e.path()),
            3 => e.xml_path(),
            4 => r(e.model().map(|m| format!("{}", m == self.model))),
            5 => r(e.file_membership().map(|(l, s)| format!("{l}/{}", s.len()))),
            6 => format!("{}", e.elements_dfs().count()),
            7 => format!("{}", e.sub_elements().count()),
            8 => format!("{}", self.model.identifiable_elements().count()),
            9 => format!("{:?}", self.model.get_element_by_path(path).map(|x| x.element_name())),
            10 => format!("{}", self.model.get_references_to(path).len()),
            11 => format!("{}", self.model.check_references().len()),
            12 => {
                let (errs, mask) = self.files[0].check_version_compatibility(AutosarVersion::Autosar_4_0_1);
                format!("{}/{:x}", errs.len(), mask)
            }
            13 => format!("{:?}", e.cmp(f)),
            14 => format!("{}", format!("{:?}", e).len()),
            15 => {
                if o.b % 2 == 0 {
                    format!("{:?}", e.item_name())
                } else {
                    format!("{:?}", e.character_data())
                }
            }
            16 => r(e.get_reference_target().map(|t| t.element_name().to_string())),
            17 => {
                let kinds = [ElementName::Category, ElementName::Desc, ElementName::AdminData, ElementName::Elements, ElementName::ArPackages, ElementName::FibexElements, ElementName::LongName, ElementName::CompuPhysToInternal];
                r(e.create_sub_element(kinds[o.b as usize % kinds.len()]).map(|x| x.element_name().to_string()))
            }
            18 => {
                let kinds = [ElementName::ArPackage, ElementName::Unit, ElementName::SystemSignal, ElementName::ISignal, ElementName::CompuMethod];
                r(e.create_named_sub_element(kinds[o.b as usize % kinds.len()], &format!("n{tag}")).map(|x| x.element_name().to_string()))
            }
            // ONE call: the parent is the one the element had in the fixture (looking it up here would make the operation a
            // sequence of two calls, which no sequential order of single calls can explain when a move comes in between)
            19 => match &self.role_parents[o.a as usize % self.roles.len()] {
                Some(p) => r(p.remove_sub_element(e.clone()).map(|_| "removed".to_string())),
                None => "Err(no parent)".to_string(),
            },
            20 => r(e.set_item_name(["x9", "a1", &format!("r{tag}"), "pkg1"][o.b as usize % 4]).map(|_| "renamed".into())),
            21 => r(e.move_element_here(f).map(|x| x.element_name().to_string())),
            22 => r(e.create_copied_sub_element(f).map(|x| x.element_name().to_string())),
            23 => r(e.set_character_data(["/pkg1/x9", "/a/x10", "val", "7"][o.b as usize % 4]).map(|_| "set".into())),
            24 => r(e.set_reference_target(f).map(|_| "set".into())),
            25 => r(e.set_attribute_string([AttributeName::Uuid, AttributeName::T, AttributeName::S][o.b as usize % 3], ["u1", "2020-01-01", "s"][o.b as usize % 3]).map(|_| "set".into())),
            26 => format!("{}", e.remove_attribute([AttributeName::Uuid, AttributeName::Dest, AttributeName::S][o.b as usize % 3])),
            27 => {
                e.set_comment(Some(format!("c{tag}")));
                "ok".into()
            }
            28 => {
                self.model.sort();
                "ok".into()
            }
            29 => {
                // odd argument: a fixed name, so that two threads can compete for the same file name
                let name = if o.b % 2 == 1 { "same.arxml".to_string() } else { format!("new{tag}.arxml") };
                r(self.model.create_file(name, AutosarVersion::Autosar_00050).map(|_| "created".into()))
            }
            30 => {
                self.model.remove_file(&self.files[0]);
                "ok".into()
            }
            31 => r(e.add_to_file(&self.files[o.b as usize % 3]).map(|_| "added".into())),
            32 => r(e.remove_from_file(&self.files[o.b as usize % 3]).map(|_| "removed".into())),
            33 => {
                let m = if o.b % 2 == 0 { &self.model } else { &self.other };
                r(m.load_buffer(FIXTURE_DOC_B.as_bytes(), format!("load{tag}.arxml"), true).map(|(_, w)| format!("loaded/{}", w.len())))
            }
            34 => r(self.model.duplicate().map(|d| format!("{}", d.elements_dfs().count()))),
            36 => r(self.files[[0, 2][o.a as usize % 2]].set_filename(format!("ren{tag}.arxml")).map(|_| "renamed".into())),
            37 => r(e.remove_character_data().map(|_| "removed".into())),
            38 => format!("{:?}", e.position()),
            _ => {
                e.sort();
                "ok".into()
            }
        }
    }

    /// lock address of every element -> lock address of its parent (own recursion over content())
    pub fn parent_locks(&self, into: &mut std::collections::HashMap<usize, usize>) {
        for m in [&self.model, &self.other] {
            let mut stack = vec![m.root_element()];
            while let Some(e) = stack.pop() {
                let pa = e.verif_lock_addr();
                for k in e.content().filter_map(|c| c.unwrap_element()) {
                    into.insert(k.verif_lock_addr(), pa);
                    stack.push(k);
                }
            }
        }
        // role elements keep their initial place as well (they may have been removed during the run)
    }

    /// id-free summary of the observable state of both models
    pub fn summary(&self) -> String {
        let mut out = String::new();
        for (mi, m) in [&self.model, &self.other].into_iter().enumerate() {
            out.push_str(&format!("== model {mi}\n"));
            let mut files: Vec<(String, String)> = m.files().map(|f| (f.filename().to_string_lossy().to_string(), format!("{:?} {}", f.version(), f.serialize().unwrap_or_else(|e| crate::hist::err_variant(&e))))).collect();
            files.sort();
            for (n, t) in files {
                out.push_str(&format!("file {n}: {t}\n"));
            }
            // the tree with comments (serialize covers content; add membership)
            for (d, e) in m.elements_dfs() {
                let mem = e.file_membership().map(|(l, s)| {
                    let mut n: Vec<String> = s.iter().filter_map(|f| f.upgrade()).map(|f| f.filename().to_string_lossy().to_string()).collect();
                    n.sort();
                    format!("{l}{:?}", n)
                });
                out.push_str(&format!("{d} {} {:?} {:?}\n", e.element_name(), e.comment(), mem.map_err(|e| crate::hist::err_variant(&e))));
            }
            let mut ids: Vec<(String, String)> = m.identifiable_elements().map(|(p, w)| (p, w.upgrade().map(|e| format!("{} {:?}", e.element_name(), e.path().ok())).unwrap_or("dead".into()))).collect();
            ids.sort();
            out.push_str(&format!("idents {:?}\n", ids));
            let mut refs: Vec<(String, Vec<String>)> = m.verif_reference_origins().into_iter().map(|(k, v)| (k, { let mut x: Vec<String> = v.iter().filter_map(|w| w.upgrade()).map(|e| e.xml_path()).collect(); x.sort(); x })).filter(|(_, v)| !v.is_empty()).collect();
            refs.sort();
            out.push_str(&format!("refs {:?}\n", refs));
            let mut broken: Vec<String> = m.check_references().iter().filter_map(|w| w.upgrade()).map(|e| e.xml_path()).collect();
            broken.sort();
            out.push_str(&format!("broken {:?}\n", broken));
        }
        out
    }

    /// structural and index invariants on both models
    pub fn invariants(&self) -> Result<(), (String, String)> {
        let mut w = World::new(0);
        w.models.push(self.model.clone());
        w.models.push(self.other.clone());
        for (mi, m) in [&self.model, &self.other].into_iter().enumerate() {
            for f in m.files() {
                w.files.push(crate::hist::FileH { model: mi, file: f });
            }
        }
        w.rescan();
        for mi in 0..2 {
            let s = scan(&mut w, mi);
            inv_tree(&mut w, mi, &s, false)?;
            inv_paths(&mut w, mi, &s)?;
            inv_refs(&mut w, mi, &s)?;
            inv_membership(&mut w, mi, &s, false)?;
        }
        Ok(())
    }
}

#[derive(Clone, Debug)]
pub struct ConcCase {
    pub threads: Vec<Vec<COp>>,
    pub schedule: Vec<u8>,
}

impl ConcCase {
    pub fn to_json(&self) -> Value {
        json!({"kind": "conc", "threads": self.threads.iter().map(|t| t.iter().map(|o| json!([o.code, o.a, o.b])).collect::<Vec<_>>()).collect::<Vec<_>>(), "schedule": self.schedule})
    }
    pub fn from_json(v: &Value) -> Option<ConcCase> {
        let threads = v["threads"].as_array()?.iter().map(|t| t.as_array().map(|ops| ops.iter().map(|o| COp { code: o[0].as_u64().unwrap_or(0) as u8, a: o[1].as_u64().unwrap_or(0) as u8, b: o[2].as_u64().unwrap_or(0) as u8 }).collect()).unwrap_or_default()).collect();
        let schedule = v["schedule"].as_array()?.iter().map(|x| x.as_u64().unwrap_or(0) as u8).collect();
        Some(ConcCase { threads, schedule })
    }
    pub fn describe(&self) -> String {
        self.threads.iter().enumerate().map(|(i, t)| format!("T{i}: {}", t.iter().map(|o| format!("{}(role {}, arg {})", OP_NAMES[o.code as usize % OP_NAMES.len()], o.a as usize % 27, o.b)).collect::<Vec<_>>().join("; "))).collect::<Vec<_>>().join(" || ")
    }
}

pub struct ConcOutcome {
    /// element lock -> parent element lock, before and after the run (union)
    pub parents: std::collections::HashMap<usize, usize>,
    pub results: Vec<Result<Vec<String>, String>>,
    pub info: RunInfo,
    pub summary: Option<String>,
    pub inv: Result<(), (String, String)>,
}

pub fn run_concurrent(c: &ConcCase) -> ConcOutcome {
    let fix = std::sync::Arc::new(Fix::new());
    let mut parents = std::collections::HashMap::new();
    fix.parent_locks(&mut parents);
    let mut bodies: Vec<Box<dyn FnOnce() -> Vec<String> + Send>> = vec![];
    for (ti, ops) in c.threads.iter().enumerate() {
        let fix = fix.clone();
        let ops = ops.clone();
        bodies.push(Box::new(move || ops.iter().enumerate().map(|(k, o)| fix.exec(o, &format!("{ti}_{k}"))).collect()));
    }
    let (results, info) = run_threads(c.schedule.clone(), bodies);
    let clean = results.iter().all(|r| r.is_ok()) && !info.aborted;
    let (summary, inv) = if clean { (Some(fix.summary()), fix.invariants()) } else { (None, Ok(())) };
    if info.deadlock.is_some() {
        // (after a deadlock the threads were unwound and all locks are free again)
        let _ = no_panic(|| fix.parent_locks(&mut parents));
    }
    ConcOutcome { parents, results, info, summary, inv }
}

/// all sequential executions (every interleaving of whole operations that respects each thread's own order);
/// operations listed in `skip` (thread, index) are left out
pub fn sequential_outcomes(c: &ConcCase, skip: &[(usize, usize)]) -> Vec<(Vec<Vec<Option<String>>>, String)> {
    let mut orders: Vec<Vec<(usize, usize)>> = vec![];
    fn rec(c: &ConcCase, pos: &mut Vec<usize>, cur: &mut Vec<(usize, usize)>, out: &mut Vec<Vec<(usize, usize)>>) {
        let mut done = true;
        for t in 0..c.threads.len() {
            if pos[t] < c.threads[t].len() {
                done = false;
                cur.push((t, pos[t]));
                pos[t] += 1;
                rec(c, pos, cur, out);
                pos[t] -= 1;
                cur.pop();
            }
        }
        if done {
            out.push(cur.clone());
        }
    }
    rec(c, &mut vec![0; c.threads.len()], &mut vec![], &mut orders);
    let mut out = vec![];
    for order in orders {
        let fix = Fix::new();
        let mut res: Vec<Vec<Option<String>>> = c.threads.iter().map(|t| vec![None; t.len()]).collect();
        for (t, k) in order {
            if skip.contains(&(t, k)) {
                continue;
            }
            let r = no_panic(|| fix.exec(&c.threads[t][k], &format!("{t}_{k}"))).unwrap_or_else(|p| format!("PANIC {p}"));
            res[t][k] = Some(r);
        }
        out.push((res, fix.summary()));
    }
    out
}

pub fn cop_strategy() -> impl Strategy<Value = COp> {
    (0..NCODES, any::<u8>(), any::<u8>()).prop_map(|(code, a, b)| COp { code, a, b })
}
