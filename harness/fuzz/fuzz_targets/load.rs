//! libFuzzer target for the loader: C02 (totality, error line range, check_buffer superset), C08 (strict / lenient
//! agreement) and the identity half of C01 on whatever the coverage-guided mutator produces.
//! A failure whose signature is an OPEN entry of known_findings.json is tolerated (counted by the driver through the
//! -print_final_stats output only); anything else aborts, and libFuzzer writes the input as the artifact.
#![no_main]
use libfuzzer_sys::fuzz_target;
use std::sync::OnceLock;
use verif::engine::*;

fn known() -> &'static Vec<KnownFinding> {
    static K: OnceLock<Vec<KnownFinding>> = OnceLock::new();
    K.get_or_init(load_known_findings)
}

fn is_known(prop: &str, sig: &str) -> bool {
    known().iter().any(|k| k.status == "open" && k.applies_to(prop) && k.signature == sig)
}

fuzz_target!(|data: &[u8]| {
    // KF-C02-4 (stack overflow on extreme nesting) is excluded by construction: inputs are capped by -max_len
    static HOOK: OnceLock<()> = OnceLock::new();
    HOOK.get_or_init(install_panic_hook);
    let mut st = Stats::new();
    let checks: [(&str, fn(&[u8], &mut Stats) -> Result<(), Failure>); 3] =
        [("C02", verif::loader::oracle_c02), ("C08", verif::loader::oracle_c08), ("C01", verif::c01::oracle_c01_bytes)];
    static ONLY: OnceLock<Option<String>> = OnceLock::new();
    let only = ONLY.get_or_init(|| std::env::var("VERIF_FUZZ_PROP").ok());
    for (prop, oracle) in checks {
        if only.as_deref().is_some_and(|o| o != prop) {
            continue;
        }
        if let Err(f) = oracle(data, &mut st) {
            if !is_known(prop, &f.signature) {
                eprintln!("FUZZ-FAILURE property={} signature={}\n{}", prop, f.signature, f.msg.chars().take(1500).collect::<String>());
                std::process::abort();
            }
        }
    }
});
