//! C06 — references keep following their target through rename and move.
use crate::audit::*;
use crate::engine::*;
use crate::hist::*;
use crate::histprops::HistCase;
use crate::inv::*;
use proptest::prelude::*;
use serde_json::{json, Value};
use std::collections::{HashMap, HashSet};

fn fail(sig: &str, msg: String, w: &World, case: &HistCase) -> Failure {
    let log = w.log.iter().enumerate().map(|(i, l)| format!("  {i:2}: {l}")).collect::<Vec<_>>().join("\n");
    Failure::new(sig, format!("{msg}\n--- history (fixture {}; the last call is the operation under test) ---\n{log}", case.fixture), case.to_json())
}

fn subtree_ids(w: &mut World, root: usize) -> HashSet<usize> {
    let mut out = HashSet::new();
    let mut stack = vec![w.elems[root].clone()];
    while let Some(e) = stack.pop() {
        let id = w.id_of(&e);
        out.insert(id);
        for k in e.sub_elements() {
            stack.push(k);
        }
    }
    out
}

pub fn run_case(case: &HistCase, st: &mut Stats, known_open: &dyn Fn(&str) -> bool) -> Result<(), Failure> {
    let audit = Audit::install();
    let mut w = World::fixture(case.fixture);
    w.audit_mode = true;
    st.eval();
    st.class(if case.fixture >= 100 { "fixture:lenient-4.0.1(version-dependently-named)" } else { "fixture:strict-00050" });
    let n = case.ops.len();
    if n == 0 {
        return Ok(());
    }
    // preparation steps
    for o in &case.ops[..n - 1] {
        // operand shapes of open findings (container copies with colliding names, copied SHORT-NAME elements ...) would leave
        // a corrupt index behind that the operation under test then trips over: they are left out of the preparation
        if let Some(kf) = crate::histprops::excluded_pub(&mut w, o, known_open) {
            st.excluded(kf);
            continue;
        }
        if no_panic(|| w.apply(o)).is_err() {
            audit.reset_held();
            st.class("aborted:panic-or-deadlock(C12)");
            return Ok(());
        }
        w.rescan();
        if o.code == op::LOAD && crate::c13::dup_paths(&mut w) {
            st.class("ended:merge-duplicate-or-failed-merge(KF-C09-1/KF-C11-1)");
            return Ok(());
        }
    }
    // the model must be free of duplicate paths before the operation (open findings of C04/C09 can create them)
    let nm = w.models.len();
    let mut pre_scans = vec![];
    for mi in 0..nm {
        let s = scan(&mut w, mi);
        if s.paths.values().any(|v| v.len() > 1) {
            st.class("skipped:duplicate-paths-before-operation");
            return Ok(());
        }
        pre_scans.push(s);
    }
    let last = &case.ops[n - 1];
    // which elements does the operation touch?
    let (subject, dest_parent): (usize, Option<usize>) = match last.code {
        op::RENAME => match w.peek_rename(last) {
            Some(id) => (id, None),
            None => return Ok(()),
        },
        op::MOVE | op::MOVE_AT => match w.peek_copy_move(last) {
            Some((pid, sid)) => (sid, Some(pid)),
            None => return Ok(()),
        },
        _ => return Ok(()),
    };
    if !w.live_set.contains(&subject) {
        st.class("skipped:stale-subject");
        return Ok(());
    }
    if let Some(pid) = dest_parent {
        if known_open("container-copy-or-move:child-path-collides-in-destination") && crate::histprops::container_children_collide_pub(&mut w, pid, subject) {
            st.excluded("KF-C04-1");
            return Ok(());
        }
    }
    let src_model = w.model_of_pub(subject);
    let subtree = subtree_ids(&mut w, subject);
    // reference -> (text, target id) before
    let mut before: HashMap<usize, (String, Option<usize>, usize)> = HashMap::new();
    for (mi, s) in pre_scans.iter().enumerate() {
        for (text, refs) in &s.refs {
            let target = s.paths.get(text).and_then(|v| v.first()).cloned();
            for r in refs {
                before.insert(*r, (text.clone(), target, mi));
            }
        }
    }
    let old_path = pre_scans[src_model].path_of.get(&subject).cloned();
    let r = no_panic(|| w.apply(last));
    let res = match r {
        Ok(res) => res,
        Err(_) => {
            audit.reset_held();
            st.class("aborted:panic-or-deadlock(C12)");
            return Ok(());
        }
    };
    if res.skipped || !res.ok {
        st.class(&format!("operation-failed:{}", res.err.clone().unwrap_or_default()));
        return Ok(());
    }
    w.rescan();
    let dest_model = if let Some(pid) = dest_parent { w.model_of_pub(pid) } else { src_model };
    let cross_model = dest_model != src_model;
    let mut post_scans = vec![];
    for mi in 0..nm {
        post_scans.push(scan(&mut w, mi));
    }
    let mut after: HashMap<usize, (String, usize)> = HashMap::new();
    for (mi, s) in post_scans.iter().enumerate() {
        for (text, refs) in &s.refs {
            for r in refs {
                after.insert(*r, (text.clone(), mi));
            }
        }
    }
    let (mut inside, mut outside) = (0, 0);
    for (r, (text0, target0, mi0)) in &before {
        let Some((text1, mi1)) = after.get(r) else { continue };
        let r_in_subtree = subtree.contains(r);
        let into_subtree = target0.is_some_and(|t| subtree.contains(&t));
        if cross_model {
            // only references inside the subtree that pointed into the subtree are specified
            if r_in_subtree && into_subtree && *mi0 == src_model {
                inside += 1;
                let t = target0.unwrap();
                let resolved = post_scans[*mi1].paths.get(text1).and_then(|v| v.first()).cloned();
                let by_api = w.models[*mi1].get_element_by_path(text1).map(|e| w.id_of(&e));
                if resolved != Some(t) || by_api != Some(t) {
                    return Err(fail("cross-model-move:inner-reference-lost-target", format!("reference #{r} inside the moved sub tree pointed to #{t} ({text0:?}) inside it; afterwards its text {text1:?} designates {:?} (lookup {:?})", resolved, by_api), &w, case));
                }
            } else {
                outside += 1;
            }
            continue;
        }
        if *mi0 != src_model {
            continue;
        }
        if into_subtree {
            inside += 1;
            let t = target0.unwrap();
            let resolved = post_scans[*mi1].paths.get(text1).and_then(|v| v.first()).cloned();
            let by_api = w.models[*mi1].get_element_by_path(text1).map(|e| w.id_of(&e));
            if resolved != Some(t) || by_api != Some(t) {
                let sig = if last.code == op::RENAME { "rename:reference-lost-target" } else { "move:reference-lost-target" };
                return Err(fail(sig, format!("reference #{r} designated #{t} <{}> by {text0:?}; after the operation its text is {text1:?}, which designates {:?} (lookup {:?})", w.elems[t].element_name(), resolved.map(|x| w.elems[x].element_name()), by_api), &w, case));
            }
        } else {
            // all other references keep their text; don't-care: dangling references at or below the old path
            let dangling_below_old = target0.is_none() && old_path.as_ref().is_some_and(|p| text0 == p || text0.starts_with(&format!("{p}/")));
            if dangling_below_old {
                st.dontcare("dangling-reference-below-old-path");
                continue;
            }
            outside += 1;
            if text1 != text0 {
                let sig = if last.code == op::RENAME { "rename:unrelated-reference-rewritten" } else { "move:unrelated-reference-rewritten" };
                return Err(fail(sig, format!("reference #{r} with text {text0:?} (target {:?}, not in the operated sub tree) was rewritten to {text1:?}", target0), &w, case));
            }
        }
    }
    st.class(&format!("operation-ok:{}{}", op::NAMES[last.code as usize], if cross_model { ":cross-model" } else { "" }));
    if inside >= 1 && outside >= 1 {
        st.nontrivial(fnv(w.log.join("\n").as_bytes()));
        if st.want_sample() {
            st.sample(json!({"fixture": case.fixture, "history": w.log.clone(), "references_into_subtree": inside, "other_references": outside}));
        }
    }
    Ok(())
}

pub fn run(ctx: &Ctx) {
    ctx.set_rule(
        "A model with a reference graph (fixture document - strict 00050, or in one case of four a leniently loaded 4.0.1 document whose CAN-TP-ADDRESS / CAN-TP-CHANNEL elements carry a SHORT-NAME their types have only in later versions - with references to the operated element, to nested elements, to name-prefix siblings /pkg1 vs /pkg10, dangling references, extended by up to 10 generated steps (reference-creating steps incl. dangling references equal to future paths, and earlier renames / moves, so that the judged operation often is the second one on the same sub tree) followed by ONE judged rename (set_item_name), move or move-at (same model: sibling package, ancestor, parent where the name exists; other model). \
         Oracle from the pre-state: a reference whose text resolved (own resolution on the tree) to an element in the renamed/moved sub tree must afterwards resolve - on the new tree and through get_element_by_path - to the same element object; every other reference keeps its text (don't-care: dangling references at or below the old path). Non-trivial: >= 1 reference into the sub tree and >= 1 other reference; distinct by call sequence.",
    );
    let known_open = |sig: &str| ctx.is_known_open(sig);
    let cases = ctx.tier.pick(60_000u64, 600_000u64);
    let prep = vec![(op::SET_REF, 10), (op::SET_DATA, 8), (op::NAMED, 6), (op::CREATE, 6), (op::RENAME, 5), (op::MOVE, 5), (op::COPY, 3), (op::LOAD, 1), (op::GET_OR_CREATE, 2)];
    let fin = vec![(op::RENAME, 5), (op::MOVE, 4), (op::MOVE_AT, 2)];
    let strat = (prop_oneof![3 => 0u32..2, 1 => 100u32..102], proptest::collection::vec(op_strategy(&prep), 0..10), op_strategy(&fin));
    run_prop(ctx, "rename-move", cases, strat, |(fixture, prep_ops, last), st| {
        let mut ops = prep_ops.clone();
        ops.push(*last);
        let case = HistCase { fixture: *fixture, ops };
        match run_case(&case, st, &known_open) {
            Ok(()) => Outcome::Pass,
            Err(f) => Outcome::Fail(f),
        }
    });
}

pub fn replay(ctx: &Ctx, case: &Value) {
    let mut st = Stats::new();
    if let Some(c) = HistCase::from_json(case) {
        if let Err(f) = run_case(&c, &mut st, &|_| false) {
            ctx.report(f);
        }
    }
    ctx.merge(st);
}
