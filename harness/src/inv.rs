//! Invariants recomputed from first principles (own recursion over content()) and the
//! Snapshot of everything observable.
#![allow(dead_code)]

use crate::adoc::*;
use crate::hist::*;
use autosar_data::*;
use std::collections::{BTreeMap, BTreeSet, HashMap, HashSet};

pub type Inv = Result<(), (String, String)>; // (signature, message)

fn bad(sig: &str, msg: String) -> Inv {
    Err((sig.to_string(), msg))
}

/// my own definition of "identifiable": the type is named in some version and the first content
/// item is a SHORT-NAME element; its item name is that element's single string value
pub fn own_item_name(e: &Element) -> Option<Option<String>> {
    if !e.element_type().is_named() {
        return None;
    }
    let first = e.content().next()?;
    let sn = first.unwrap_element()?;
    if sn.element_name() != ElementName::ShortName {
        return None;
    }
    let items: Vec<ElementContent> = sn.content().collect();
    if items.len() == 1 {
        if let Some(CharacterData::String(s)) = items[0].unwrap_cdata() {
            return Some(Some(s));
        }
    }
    Some(None)
}

pub struct Scan {
    /// preorder: (id, parent id, index in parent's content, depth)
    pub pre: Vec<(usize, Option<usize>, usize, usize)>,
    /// expected path per identifiable element id
    pub path_of: HashMap<usize, String>,
    /// expected path -> element ids
    pub paths: BTreeMap<String, Vec<usize>>,
    /// reference text -> referring element ids
    pub refs: BTreeMap<String, Vec<usize>>,
    /// reference elements without (single string) text
    pub textless_refs: Vec<usize>,
}

pub fn scan(w: &mut World, mi: usize) -> Scan {
    let mut s = Scan { pre: vec![], path_of: HashMap::new(), paths: BTreeMap::new(), refs: BTreeMap::new(), textless_refs: vec![] };
    let root = w.models[mi].root_element();
    // (element, parent id, index, depth, path prefix)
    let mut stack: Vec<(Element, Option<usize>, usize, usize, String)> = vec![(root, None, 0, 0, String::new())];
    while let Some((e, parent, idx, depth, prefix)) = stack.pop() {
        let id = w.id_of(&e);
        s.pre.push((id, parent, idx, depth));
        let mut my_prefix = prefix.clone();
        if let Some(Some(name)) = own_item_name(&e) {
            let p = format!("{prefix}/{name}");
            s.path_of.insert(id, p.clone());
            s.paths.entry(p.clone()).or_default().push(id);
            my_prefix = p;
        }
        if e.element_type().is_ref() {
            let items: Vec<ElementContent> = e.content().collect();
            match items.first().and_then(|c| c.unwrap_cdata()) {
                Some(CharacterData::String(t)) if items.len() == 1 => s.refs.entry(t).or_default().push(id),
                _ => s.textless_refs.push(id),
            }
        }
        let kids: Vec<(usize, Element)> = e.content().enumerate().filter_map(|(i, c)| c.unwrap_element().map(|k| (i, k))).collect();
        for (i, k) in kids.into_iter().rev() {
            stack.push((k, Some(id), i, depth + 1, my_prefix.clone()));
        }
    }
    for p in s.paths.keys() {
        w.ghost_paths.insert(p.clone());
    }
    s
}

// ---------------------------------------------------------------------------------------------
// C03: tree

pub fn inv_tree(w: &mut World, mi: usize, s: &Scan, deep: bool) -> Inv {
    let model = w.models[mi].clone();
    let mut seen = HashSet::new();
    for (id, parent, idx, _) in &s.pre {
        if !seen.insert(*id) {
            return bad("tree:element-listed-twice", format!("element #{id} <{}> is reachable twice from the root", w.elems[*id].element_name()));
        }
        let e = &w.elems[*id];
        match (e.parent(), parent) {
            (Ok(None), None) => {}
            (Ok(Some(p)), Some(pid)) if w.ids.get(&p) == Some(pid) => {}
            (got, _) => {
                return bad("tree:parent-mismatch", format!("element #{id} <{}> is listed by {:?} but parent() = {:?}", e.element_name(), parent.map(|p| w.elems[p].element_name()), got.map(|o| o.map(|p| p.element_name()))));
            }
        }
        if let Some(pid) = parent {
            if e.position() != Some(*idx) {
                return bad("tree:position-mismatch", format!("element #{id} <{}> is content item {idx} of its parent but position() = {:?}", e.element_name(), e.position()));
            }
            if w.elems[*pid].get_sub_element_at(*idx).as_ref() != Some(e) {
                return bad("tree:get_sub_element_at-mismatch", format!("parent.get_sub_element_at({idx}) is not element #{id}"));
            }
        }
        match e.model() {
            Ok(m) if m == model => {}
            other => return bad("tree:model-mismatch", format!("element #{id} <{}> is in the tree of model {mi} but model() = {:?}", e.element_name(), other.map(|_| "another model"))),
        }
    }
    // DFS iterators
    let expect: Vec<(usize, usize)> = s.pre.iter().map(|(id, _, _, d)| (*d, *id)).collect();
    let got: Vec<(usize, usize)> = model.elements_dfs().map(|(d, e)| (d, *w.ids.get(&e).unwrap_or(&usize::MAX))).collect();
    if got != expect {
        return bad("tree:model-dfs-mismatch", format!("model.elements_dfs() yields {} items, own preorder {}; first difference at {:?}", got.len(), expect.len(), got.iter().zip(expect.iter()).position(|(a, b)| a != b)));
    }
    if deep {
        for maxd in [1usize, 2, 3] {
            let exp: Vec<(usize, usize)> = expect.iter().filter(|(d, _)| *d <= maxd).cloned().collect();
            let got: Vec<(usize, usize)> = model.elements_dfs_with_max_depth(maxd).map(|(d, e)| (d, *w.ids.get(&e).unwrap_or(&usize::MAX))).collect();
            // max_depth 0 means unlimited; depth is counted from the root (depth 0)
            if got != exp {
                return bad("tree:model-dfs-maxdepth-mismatch", format!("model.elements_dfs_with_max_depth({maxd}) yields {} items, expected {}", got.len(), exp.len()));
            }
        }
        // element-scoped DFS for a few elements
        let step = (s.pre.len() / 5).max(1);
        for k in (0..s.pre.len()).step_by(step) {
            let (id, _, _, d0) = s.pre[k];
            let mut exp = vec![];
            for (j, (cid, _, _, d)) in s.pre.iter().enumerate().skip(k) {
                if j > k && *d <= d0 {
                    break;
                }
                exp.push((*d - d0, *cid));
            }
            let got: Vec<(usize, usize)> = w.elems[id].elements_dfs().map(|(d, e)| (d, *w.ids.get(&e).unwrap_or(&usize::MAX))).collect();
            if got != exp {
                return bad("tree:element-dfs-mismatch", format!("#{id}.elements_dfs() yields {} items, own preorder of the subtree {}", got.len(), exp.len()));
            }
            let exp1: Vec<(usize, usize)> = exp.iter().filter(|(d, _)| *d <= 1).cloned().collect();
            let got1: Vec<(usize, usize)> = w.elems[id].elements_dfs_with_max_depth(1).map(|(d, e)| (d, *w.ids.get(&e).unwrap_or(&usize::MAX))).collect();
            if got1 != exp1 {
                return bad("tree:element-dfs-maxdepth-mismatch", format!("#{id}.elements_dfs_with_max_depth(1) yields {} items, expected {}", got1.len(), exp1.len()));
            }
            let subs: Vec<usize> = w.elems[id].sub_elements().map(|e| *w.ids.get(&e).unwrap_or(&usize::MAX)).collect();
            let exps: Vec<usize> = exp.iter().filter(|(d, _)| *d == 1).map(|(_, i)| *i).collect();
            if subs != exps {
                return bad("tree:sub_elements-mismatch", format!("#{id}.sub_elements() differs from content()"));
            }
        }
    }
    Ok(())
}

/// C03 second half: requests through stale handles fail and change nothing
pub fn inv_stale(w: &mut World, sample: usize, salt: u32) -> Inv {
    let stale = w.stale_ids();
    if stale.is_empty() {
        return Ok(());
    }
    let n = stale.len();
    for k in 0..sample.min(n) {
        let id = stale[(k * 7919 + salt as usize) % n];
        let e = w.elems[id].clone();
        let nm = e.element_name();
        if let Ok(p) = e.parent() {
            return bad("stale:parent-ok", format!("stale #{id} <{nm}>: parent() = Ok({:?})", p.map(|x| x.element_name())));
        }
        if e.named_parent().is_ok() {
            return bad("stale:named_parent-ok", format!("stale #{id} <{nm}>: named_parent() succeeds"));
        }
        if e.model().is_ok() {
            return bad("stale:model-ok", format!("stale #{id} <{nm}>: model() succeeds"));
        }
        if let Ok(p) = e.path() {
            return bad("stale:path-ok", format!("stale #{id} <{nm}>: path() = {p:?}"));
        }
        if e.file_membership().is_ok() {
            return bad("stale:file_membership-ok", format!("stale #{id} <{nm}>: file_membership() succeeds"));
        }
        if e.min_version().is_ok() {
            return bad("stale:min_version-ok", format!("stale #{id} <{nm}>: min_version() succeeds"));
        }
    }
    Ok(())
}

/// mutating requests through a stale handle must fail; returns the descriptions of calls that succeeded
pub fn stale_mutations(w: &mut World, id: usize, salt: u32) -> Vec<String> {
    let e = w.elems[id].clone();
    let mut ok_calls = vec![];
    let live: Vec<usize> = w.live.iter().flat_map(|l| l.iter().map(|(i, _)| *i)).collect();
    let some_live = live.get((salt as usize) % live.len().max(1)).map(|i| w.elems[*i].clone());
    if e.create_sub_element(ElementName::Category).is_ok() {
        ok_calls.push("create_sub_element".to_string());
    }
    if e.create_named_sub_element(ElementName::ArPackage, "zz").is_ok() {
        ok_calls.push("create_named_sub_element".to_string());
    }
    if e.is_identifiable() && e.set_item_name("renamed_stale").is_ok() {
        ok_calls.push("set_item_name".to_string());
    }
    if let Some(l) = &some_live {
        if *l != e {
            if e.move_element_here(l).is_ok() {
                ok_calls.push("move_element_here(live) [stale destination]".to_string());
            }
            if l.move_element_here(&e).is_ok() {
                ok_calls.push("live.move_element_here(stale) [stale source]".to_string());
            }
            if l.remove_sub_element(e.clone()).is_ok() {
                ok_calls.push("live.remove_sub_element(stale)".to_string());
            }
            if l.is_reference() && e.is_identifiable() && l.set_reference_target(&e).is_ok() {
                ok_calls.push("live_ref.set_reference_target(stale)".to_string());
            }
        }
    }
    let kids: Vec<Element> = e.sub_elements().collect();
    if let Some(k) = kids.first() {
        if e.remove_sub_element(k.clone()).is_ok() {
            ok_calls.push("stale.remove_sub_element(child)".to_string());
        }
    }
    if let Some(f) = w.files.first() {
        if e.add_to_file(&f.file).is_ok() {
            ok_calls.push("add_to_file".to_string());
        }
        if e.remove_from_file(&f.file).is_ok() {
            ok_calls.push("remove_from_file".to_string());
        }
    }
    ok_calls
}

// ---------------------------------------------------------------------------------------------
// C04: paths

pub fn inv_paths(w: &mut World, mi: usize, s: &Scan) -> Inv {
    let model = w.models[mi].clone();
    // pairwise distinct
    for (p, ids) in &s.paths {
        if ids.len() > 1 {
            return bad("paths:duplicate-path", format!("{} elements of the model have the path {p:?}: {:?}", ids.len(), ids.iter().map(|i| w.elems[*i].element_name().to_string()).collect::<Vec<_>>()));
        }
    }
    // enumeration
    let mut listed: BTreeMap<String, Vec<usize>> = BTreeMap::new();
    for (p, weak) in model.identifiable_elements() {
        match weak.upgrade() {
            Some(e) => listed.entry(p).or_default().push(*w.ids.get(&e).unwrap_or(&usize::MAX)),
            None => return bad("paths:dead-entry-listed", format!("identifiable_elements() lists {p:?} whose element no longer exists")),
        }
    }
    for (p, ids) in &listed {
        match s.paths.get(p) {
            None => return bad("paths:stale-entry", format!("identifiable_elements() lists {p:?} (element #{:?}) but no identifiable element of the model has this path", ids)),
            Some(exp) if exp != ids => return bad("paths:wrong-element-listed", format!("identifiable_elements() lists {p:?} -> #{:?}, the element with this path is #{:?}", ids, exp)),
            _ => {}
        }
    }
    for (p, ids) in &s.paths {
        if !listed.contains_key(p) {
            return bad("paths:missing-entry", format!("identifiable element #{} <{}> with path {p:?} is not listed by identifiable_elements()", ids[0], w.elems[ids[0]].element_name()));
        }
    }
    // lookups
    for (p, ids) in &s.paths {
        match model.get_element_by_path(p) {
            Some(e) if w.ids.get(&e) == Some(&ids[0]) => {}
            other => return bad("paths:lookup-wrong", format!("get_element_by_path({p:?}) = {:?}, expected element #{}", other.map(|e| e.element_name()), ids[0])),
        }
    }
    // ghost probes: former paths, prefix siblings, one-edit variants
    let mut probes: Vec<String> = w.ghost_paths.iter().cloned().collect();
    for p in s.paths.keys() {
        probes.push(format!("{p}0"));
        probes.push(format!("{p}/"));
        probes.push(format!("{p}/a"));
        if p.len() > 1 {
            probes.push(p[..p.len() - 1].to_string());
        }
    }
    probes.push(String::new());
    probes.push("/".into());
    for p in probes {
        if !s.paths.contains_key(&p) {
            if let Some(e) = model.get_element_by_path(&p) {
                return bad("paths:ghost-lookup", format!("get_element_by_path({p:?}) returns <{}> but no identifiable element has this path", e.element_name()));
            }
        }
    }
    // path()
    for (id, _, _, _) in &s.pre {
        let e = &w.elems[*id];
        match (s.path_of.get(id), e.path()) {
            (Some(exp), Ok(got)) if *exp == got => {}
            (None, Err(_)) => {}
            (exp, got) => {
                return bad("paths:path()-mismatch", format!("element #{id} <{}>: path() = {:?}, concatenation of item names = {:?}", e.element_name(), got.map_err(|e| crate::hist::err_variant(&e)), exp));
            }
        }
    }
    Ok(())
}

// ---------------------------------------------------------------------------------------------
// C05: references

pub fn dest_ok(w: &World, r: usize, target: usize) -> bool {
    match w.elems[r].attribute_value(AttributeName::Dest) {
        Some(CharacterData::Enum(d)) => w.elems[target].element_type().verify_reference_dest(d),
        _ => false,
    }
}

pub fn inv_refs(w: &mut World, mi: usize, s: &Scan) -> Inv {
    let model = w.models[mi].clone();
    let origins = model.verif_reference_origins();
    let mut real: BTreeMap<String, Vec<usize>> = BTreeMap::new();
    let live_here: HashSet<usize> = s.pre.iter().map(|x| x.0).collect();
    for (k, list) in origins {
        let mut ids = vec![];
        for wk in list {
            if let Some(e) = wk.upgrade() {
                let id = w.id_of(&e);
                ids.push(id);
            }
        }
        ids.sort();
        real.insert(k, ids);
    }
    for (k, ids) in &real {
        let mut exp = s.refs.get(k).cloned().unwrap_or_default();
        exp.sort();
        if *ids != exp {
            let extra: Vec<usize> = ids.iter().filter(|i| !exp.contains(i)).cloned().collect();
            let sig = if extra.iter().any(|i| !live_here.contains(i)) {
                "refs:entry-for-element-not-in-model"
            } else if !extra.is_empty() {
                "refs:entry-under-wrong-text"
            } else if ids.len() < exp.len() {
                "refs:referrer-missing"
            } else {
                "refs:referrer-listed-twice"
            };
            return bad(sig, format!("referrers listed for {k:?}: #{:?}; reference elements in the model with this text: #{:?}", ids, exp));
        }
        // public API agrees with the hook
        let mut api: Vec<usize> = model.get_references_to(k).iter().filter_map(|x| x.upgrade()).map(|e| *w.ids.get(&e).unwrap_or(&usize::MAX)).collect();
        api.sort();
        if api != *ids {
            return bad("refs:get_references_to-mismatch", format!("get_references_to({k:?}) differs from the reverse map"));
        }
    }
    for (k, exp) in &s.refs {
        if !real.contains_key(k) {
            return bad("refs:referrer-missing", format!("reference element(s) #{:?} with text {k:?} are not listed as referrers", exp));
        }
    }
    // ghost keys
    for g in w.ghost_paths.iter() {
        if !s.refs.contains_key(g) {
            let l: Vec<_> = model.get_references_to(g).iter().filter_map(|x| x.upgrade()).collect();
            if !l.is_empty() {
                return bad("refs:entry-under-wrong-text", format!("get_references_to({g:?}) lists {} live referrer(s) but no reference has this text", l.len()));
            }
        }
    }
    // invalid-reference report
    let mut expected_broken: BTreeSet<usize> = BTreeSet::new();
    for (k, ids) in &s.refs {
        let target = s.paths.get(k).and_then(|v| v.first()).cloned();
        for r in ids {
            let ok = target.is_some_and(|t| dest_ok(w, *r, t));
            if !ok {
                expected_broken.insert(*r);
            }
        }
    }
    let report: BTreeSet<usize> = model.check_references().iter().filter_map(|x| x.upgrade()).map(|e| *w.ids.get(&e).unwrap_or(&usize::MAX)).collect();
    if report != expected_broken {
        let missing: Vec<_> = expected_broken.difference(&report).collect();
        let extra: Vec<_> = report.difference(&expected_broken).collect();
        return bad(if !missing.is_empty() { "refs:report-misses-invalid-reference" } else { "refs:report-lists-valid-reference" }, format!("check_references(): missing #{:?}, unexpected #{:?}", missing, extra));
    }
    for (k, ids) in &s.refs {
        let target = s.paths.get(k).and_then(|v| v.first()).cloned();
        for r in ids {
            let got = w.elems[*r].get_reference_target();
            let in_report = report.contains(r);
            match (&got, target) {
                (Ok(e), Some(t)) if !in_report && w.ids.get(e) == Some(&t) => {}
                (Err(_), _) if in_report => {}
                _ => {
                    return bad("refs:resolve-vs-report", format!("reference #{r} with text {k:?}: in report = {in_report}, get_reference_target() = {:?}, expected target #{:?}", got.map(|e| e.element_name()).map_err(|e| crate::hist::err_variant(&e)), target));
                }
            }
        }
    }
    Ok(())
}

// ---------------------------------------------------------------------------------------------
// C10: membership

pub fn file_id(w: &World, f: &WeakArxmlFile) -> Option<usize> {
    let f = f.upgrade()?;
    w.files.iter().position(|h| h.file == f)
}

/// effective file set per element, computed top-down from the local sets
pub fn inv_membership(w: &mut World, mi: usize, s: &Scan, reload: bool) -> Inv {
    let model = w.models[mi].clone();
    let model_files: Vec<ArxmlFile> = model.files().collect();
    let model_file_ids: BTreeSet<usize> = model_files.iter().filter_map(|f| w.files.iter().position(|h| h.file == *f)).collect();
    if model_file_ids.len() != model_files.len() {
        return bad("harness:unknown-file", "model lists a file the harness does not know".into());
    }
    if model_files.is_empty() {
        return Ok(());
    }
    // file names are the keys under which the model writes its files: they must be unique, and serialize_files() must have
    // one entry per file (otherwise the elements of one of two same-named files are written nowhere)
    {
        let mut names: Vec<std::path::PathBuf> = model_files.iter().map(|f| f.filename()).collect();
        names.sort();
        if let Some(w2) = names.windows(2).find(|w2| w2[0] == w2[1]) {
            return bad("membership:duplicate-file-name", format!("two files of the model are named {:?}", w2[0]));
        }
        let written = model.serialize_files();
        if written.len() != model_files.len() {
            return bad("membership:serialize_files-entry-count", format!("the model has {} files, serialize_files() returns {} texts", model_files.len(), written.len()));
        }
    }
    let mut eff: HashMap<usize, BTreeSet<usize>> = HashMap::new();
    for (id, parent, _, _) in &s.pre {
        let e = &w.elems[*id];
        let (local, set) = match e.file_membership() {
            Ok(x) => x,
            Err(err) => return bad("membership:file_membership-error", format!("element #{id} <{}>: file_membership() fails: {}", e.element_name(), err)),
        };
        let mut ids = BTreeSet::new();
        for f in &set {
            match file_id(w, f) {
                Some(i) if model_file_ids.contains(&i) => {
                    ids.insert(i);
                }
                _ => return bad("membership:file-not-in-model", format!("element #{id} <{}> is attributed to a file that does not belong to the model", e.element_name())),
            }
        }
        if ids.is_empty() {
            return bad("membership:element-in-no-file", format!("element #{id} <{}> is in no file", e.element_name()));
        }
        if let Some(p) = parent {
            let pe = &eff[p];
            if local {
                if !ids.is_subset(pe) {
                    return bad("membership:not-subset-of-parent", format!("element #{id} <{}> is restricted to files {:?} but its parent is only in {:?}", e.element_name(), ids, pe));
                }
            } else if ids != *pe {
                return bad("membership:inherited-set-differs", format!("element #{id} inherits {:?} but parent has {:?}", ids, pe));
            }
        }
        eff.insert(*id, ids);
    }
    // per file: elements_dfs == projection
    for f in &model_files {
        let fi = w.files.iter().position(|h| h.file == *f).unwrap();
        // projection: element included iff in file and parent included
        let mut included: HashSet<usize> = HashSet::new();
        let mut proj: Vec<(usize, usize)> = vec![];
        for (id, parent, _, d) in &s.pre {
            let inc = eff[id].contains(&fi) && parent.is_none_or(|p| included.contains(&p));
            if inc {
                included.insert(*id);
                proj.push((*d, *id));
            }
        }
        let got: Vec<(usize, usize)> = f.elements_dfs().map(|(d, e)| (d, *w.ids.get(&e).unwrap_or(&usize::MAX))).collect();
        if got != proj {
            return bad("membership:file-dfs-mismatch", format!("file{fi}.elements_dfs() yields {} elements, projection of the tree onto the file has {}", got.len(), proj.len()));
        }
        // the file-scoped iterator with a depth limit (depth counted from the root = 0)
        for maxd in [1usize, 2, 3, 4] {
            let exp: Vec<(usize, usize)> = proj.iter().filter(|(d, _)| *d <= maxd).cloned().collect();
            let got: Vec<(usize, usize)> = f.elements_dfs_with_max_depth(maxd).map(|(d, e)| (d, *w.ids.get(&e).unwrap_or(&usize::MAX))).collect();
            if got != exp {
                return bad("membership:file-dfs-maxdepth-mismatch", format!("file{fi}.elements_dfs_with_max_depth({maxd}) yields {} elements, the projection of the tree onto the file has {} down to that depth", got.len(), exp.len()));
            }
        }
        if reload {
            match f.serialize() {
                Ok(text) => {
                    let m2 = AutosarModel::new();
                    match m2.load_buffer(text.as_bytes(), "reload.arxml", false) {
                        Ok(_) => {
                            // compare element names in preorder with the projection
                            let exp: Vec<(usize, ElementName)> = proj.iter().map(|(d, id)| (*d, w.elems[*id].element_name())).collect();
                            let got: Vec<(usize, ElementName)> = m2.elements_dfs().map(|(d, e)| (d, e.element_name())).collect();
                            if exp != got {
                                return bad("membership:file-text-mismatch", format!("text written for file{fi} contains {} elements, {} are attributed to it", got.len(), exp.len()));
                            }
                        }
                        Err(e) => return bad("membership:file-text-does-not-load", format!("text written for file{fi} does not load on its own: {e}")),
                    }
                }
                Err(AutosarDataError::EmptyFile) => {
                    if !proj.is_empty() {
                        return bad("membership:emptyfile-but-elements", format!("file{fi}.serialize() = EmptyFile but {} elements are attributed to it", proj.len()));
                    }
                }
                Err(e) => return bad("membership:serialize-error", format!("file{fi}.serialize(): {e}")),
            }
        }
    }
    // the union of the projections is the tree: every element is in >= 1 file (checked above)
    Ok(())
}

// ---------------------------------------------------------------------------------------------
// Snapshot (C11, C13, C16)

#[derive(Clone, Debug, PartialEq)]
pub struct SnapNode {
    pub id: usize,
    pub parent: Option<usize>,
    pub depth: usize,
    pub name: ElementName,
    pub etype: autosar_data_specification::ElementType,
    pub attrs: Vec<(AttributeName, AVal)>,
    pub comment: Option<String>,
    /// content: element ids (as Err) and values (as Ok)
    pub content: Vec<Result<AVal, usize>>,
    pub local_files: Option<BTreeSet<usize>>,
}

#[derive(Clone, Debug, PartialEq)]
pub struct Snapshot {
    pub nodes: Vec<SnapNode>,
    pub idents: BTreeMap<String, Vec<usize>>,
    pub lookups: BTreeMap<String, Option<usize>>,
    pub refs: BTreeMap<String, Vec<usize>>,
    pub broken: BTreeSet<usize>,
    pub files: Vec<(usize, String, AutosarVersion, Option<bool>)>,
    pub texts: Vec<(usize, Result<String, String>)>,
}

pub fn snapshot(w: &mut World, mi: usize, with_texts: bool) -> Snapshot {
    let model = w.models[mi].clone();
    let s = scan(w, mi);
    let mut nodes = vec![];
    for (id, parent, _, depth) in &s.pre {
        let e = w.elems[*id].clone();
        let mut content = vec![];
        for c in e.content() {
            match c {
                ElementContent::Element(k) => content.push(Err(w.id_of(&k))),
                ElementContent::CharacterData(cd) => content.push(Ok(AVal::from_cdata(&cd))),
            }
        }
        let local_files = match e.file_membership() {
            Ok((true, set)) => Some(set.iter().filter_map(|f| file_id(w, f)).collect()),
            _ => None,
        };
        nodes.push(SnapNode {
            id: *id,
            parent: *parent,
            depth: *depth,
            name: e.element_name(),
            etype: e.element_type(),
            attrs: e.attributes().map(|a| (a.attrname, AVal::from_cdata(&a.content))).collect(),
            comment: e.comment(),
            content,
            local_files,
        });
    }
    // the root's xsi:schemaLocation attribute is rewritten by serialize(): normalise it away
    if let Some(r) = nodes.first_mut() {
        r.attrs.retain(|(n, _)| *n != AttributeName::xsiSchemalocation);
    }
    let mut idents: BTreeMap<String, Vec<usize>> = BTreeMap::new();
    for (p, wk) in model.identifiable_elements() {
        let id = wk.upgrade().map(|e| w.id_of(&e)).unwrap_or(usize::MAX);
        idents.entry(p).or_default().push(id);
    }
    let mut lookups = BTreeMap::new();
    let mut keys: Vec<String> = idents.keys().cloned().collect();
    keys.extend(s.paths.keys().cloned());
    keys.extend(w.ghost_paths.iter().cloned());
    for k in keys {
        let r = model.get_element_by_path(&k).map(|e| w.id_of(&e));
        lookups.insert(k, r);
    }
    let mut refs = BTreeMap::new();
    for (k, list) in model.verif_reference_origins() {
        let mut ids: Vec<usize> = list.iter().filter_map(|x| x.upgrade()).map(|e| w.id_of(&e)).collect();
        ids.sort();
        if !ids.is_empty() {
            refs.insert(k, ids);
        }
    }
    let broken = model.check_references().iter().filter_map(|x| x.upgrade()).map(|e| w.id_of(&e)).collect();
    let mut files = vec![];
    let mut texts = vec![];
    for f in model.files() {
        let fi = w.files.iter().position(|h| h.file == f).unwrap_or(usize::MAX);
        files.push((fi, f.filename().to_string_lossy().to_string(), f.version(), f.xml_standalone()));
        if with_texts {
            texts.push((fi, f.serialize().map_err(|e| crate::hist::err_variant(&e))));
        }
    }
    Snapshot { nodes, idents, lookups, refs, broken, files, texts }
}

impl Snapshot {
    pub fn diff(&self, o: &Snapshot) -> Option<String> {
        if self.files != o.files {
            return Some(format!("file list: {:?} vs {:?}", self.files, o.files));
        }
        if self.nodes.len() != o.nodes.len() {
            return Some(format!("element tree: {} elements vs {}", self.nodes.len(), o.nodes.len()));
        }
        for (a, b) in self.nodes.iter().zip(o.nodes.iter()) {
            if a != b {
                let what = if a.id != b.id || a.parent != b.parent {
                    "structure"
                } else if a.content != b.content {
                    "content"
                } else if a.attrs != b.attrs {
                    "attributes"
                } else if a.local_files != b.local_files {
                    "file membership"
                } else {
                    "comment/type"
                };
                return Some(format!("element #{} <{}>: {what} differs: {:?} vs {:?}", a.id, a.name, a, b));
            }
        }
        if self.idents != o.idents {
            let ka: BTreeSet<_> = self.idents.keys().collect();
            let kb: BTreeSet<_> = o.idents.keys().collect();
            return Some(format!("identifiable_elements(): only before {:?}, only after {:?}", ka.difference(&kb).collect::<Vec<_>>(), kb.difference(&ka).collect::<Vec<_>>()));
        }
        // (the key sets may differ because the set of probed ghost paths grows over time: compare on the union, absent = None)
        for k in self.lookups.keys().chain(o.lookups.keys()) {
            let a = self.lookups.get(k).cloned().flatten();
            let b = o.lookups.get(k).cloned().flatten();
            if a != b && self.lookups.contains_key(k) && o.lookups.contains_key(k) {
                return Some(format!("get_element_by_path({k:?}): {:?} vs {:?}", a, b));
            }
        }
        if self.refs != o.refs {
            for (k, v) in &self.refs {
                if o.refs.get(k) != Some(v) {
                    return Some(format!("referrers of {k:?}: {:?} vs {:?}", v, o.refs.get(k)));
                }
            }
            for (k, v) in &o.refs {
                if !self.refs.contains_key(k) {
                    return Some(format!("referrers of {k:?}: none vs {:?}", v));
                }
            }
        }
        if self.broken != o.broken {
            return Some(format!("check_references(): {:?} vs {:?}", self.broken, o.broken));
        }
        if self.texts != o.texts {
            return Some("serialized text of a file differs".into());
        }
        None
    }
}
