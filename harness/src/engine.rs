//! Shared engine: run context, statistics, evidence writer, known findings, replay files,
//! proptest driver (fixed seed, parallel workers), panic capture.
#![allow(dead_code)]

use proptest::strategy::{Strategy, ValueTree};
use proptest::test_runner::{Config, RngAlgorithm, RngSeed, TestCaseError, TestError, TestRunner};
use serde_json::{json, Value};
use std::collections::{BTreeMap, HashSet};
use std::panic::{catch_unwind, AssertUnwindSafe};
use std::sync::atomic::{AtomicBool, Ordering};
use std::sync::Mutex;
use std::time::Instant;

pub fn verif_dir() -> String {
    std::env::var("VERIF_DIR").unwrap_or_else(|_| "/verif".to_string())
}

#[derive(Clone, Copy, PartialEq, Eq, Debug)]
pub enum Tier {
    Quick,
    Thorough,
}

impl Tier {
    pub fn name(self) -> &'static str {
        match self {
            Tier::Quick => "quick",
            Tier::Thorough => "thorough",
        }
    }
    /// pick a size by tier
    pub fn pick<T>(self, quick: T, thorough: T) -> T {
        match self {
            Tier::Quick => quick,
            Tier::Thorough => thorough,
        }
    }
}

/// A failed case: a message, a structural signature (used to match known findings), and the
/// case itself as JSON (this is what goes into the replay file).
#[derive(Clone, Debug)]
pub struct Failure {
    pub signature: String,
    pub msg: String,
    pub case: Value,
}

impl Failure {
    pub fn new(signature: impl Into<String>, msg: impl Into<String>, case: Value) -> Self {
        Failure { signature: signature.into(), msg: msg.into(), case }
    }
}

#[derive(Clone, Debug)]
pub struct KnownFinding {
    pub id: String,
    pub property: String,
    pub status: String, // "open" | "fixed"
    pub signature: String,
    pub summary: String,
    /// other properties whose checks meet the same defect (same signature)
    pub also: Vec<String>,
}

impl KnownFinding {
    pub fn applies_to(&self, prop: &str) -> bool {
        self.property == prop || self.also.iter().any(|p| p == prop)
    }
}

const DISTINCT_CAP: usize = 8_000_000;
const MAX_SAMPLES: usize = 6;

/// Per-worker statistics; merged into the context at the end of a worker.
#[derive(Default)]
pub struct Stats {
    pub evaluations: u64,
    /// fingerprints of non-trivial cases (hash set, capped)
    pub distinct: HashSet<u64>,
    /// non-trivial cases that are distinct by construction (exhaustive enumerations)
    pub distinct_by_construction: u64,
    pub classes: BTreeMap<String, u64>,
    pub excluded_known: BTreeMap<String, u64>,
    pub dont_care: BTreeMap<String, u64>,
    pub samples: Vec<Value>,
    pub discards: u64,
}

impl Stats {
    pub fn new() -> Self {
        Self::default()
    }
    #[inline]
    pub fn eval(&mut self) {
        self.evaluations += 1;
    }
    #[inline]
    pub fn nontrivial(&mut self, fingerprint: u64) {
        if self.distinct.len() < DISTINCT_CAP {
            self.distinct.insert(fingerprint);
        }
    }
    #[inline]
    pub fn nontrivial_constructed(&mut self) {
        self.distinct_by_construction += 1;
    }
    pub fn class(&mut self, name: &str) {
        if let Some(c) = self.classes.get_mut(name) {
            *c += 1;
        } else {
            self.classes.insert(name.to_string(), 1);
        }
    }
    pub fn class_n(&mut self, name: &str, n: u64) {
        *self.classes.entry(name.to_string()).or_insert(0) += n;
    }
    pub fn excluded(&mut self, kf: &str) {
        *self.excluded_known.entry(kf.to_string()).or_insert(0) += 1;
    }
    pub fn dontcare(&mut self, what: &str) {
        *self.dont_care.entry(what.to_string()).or_insert(0) += 1;
    }
    pub fn want_sample(&self) -> bool {
        self.samples.len() < MAX_SAMPLES
    }
    pub fn sample(&mut self, v: Value) {
        if self.samples.len() < MAX_SAMPLES {
            self.samples.push(v);
        }
    }
    pub fn merge(&mut self, o: Stats) {
        self.evaluations += o.evaluations;
        self.distinct_by_construction += o.distinct_by_construction;
        self.discards += o.discards;
        for f in o.distinct {
            if self.distinct.len() < DISTINCT_CAP {
                self.distinct.insert(f);
            }
        }
        for (k, v) in o.classes {
            *self.classes.entry(k).or_insert(0) += v;
        }
        for (k, v) in o.excluded_known {
            *self.excluded_known.entry(k).or_insert(0) += v;
        }
        for (k, v) in o.dont_care {
            *self.dont_care.entry(k).or_insert(0) += v;
        }
        for s in o.samples {
            if self.samples.len() < 2 * MAX_SAMPLES {
                self.samples.push(s);
            }
        }
    }
}

pub struct Ctx {
    pub id: String,
    pub tier: Tier,
    pub seed: u64,
    pub replay_mode: bool,
    pub start: Instant,
    pub stats: Mutex<Stats>,
    pub known: Vec<KnownFinding>,
    /// failures that matched an open known finding: signature -> (count, first msg)
    pub known_hits: Mutex<BTreeMap<String, (u64, String)>>,
    /// failures not on the known list
    pub violations: Mutex<Vec<(Failure, String)>>,
    pub rule: Mutex<String>,
    pub assumptions: Mutex<Vec<String>>,
    pub exhaustive_parts: Mutex<Vec<String>>,
    pub harness_errors: Mutex<Vec<String>>,
    pub stop: AtomicBool,
}

pub fn fnv(data: &[u8]) -> u64 {
    let mut h: u64 = 0xcbf29ce484222325;
    for b in data {
        h ^= *b as u64;
        h = h.wrapping_mul(0x100000001b3);
    }
    h
}

pub fn mix(a: u64, b: u64) -> u64 {
    let mut z = a ^ b.wrapping_mul(0x9E3779B97F4A7C15).rotate_left(31);
    z = (z ^ (z >> 30)).wrapping_mul(0xBF58476D1CE4E5B9);
    z = (z ^ (z >> 27)).wrapping_mul(0x94D049BB133111EB);
    z ^ (z >> 31)
}

/// Small deterministic generator used ONLY to derive per-worker seeds and to pick sweep samples
/// (which items of a finite list a tier visits). Case content comes from proptest strategies
/// or from exhaustive enumeration.
#[derive(Clone)]
pub struct SplitMix(pub u64);
impl SplitMix {
    pub fn next(&mut self) -> u64 {
        self.0 = self.0.wrapping_add(0x9E3779B97F4A7C15);
        let mut z = self.0;
        z = (z ^ (z >> 30)).wrapping_mul(0xBF58476D1CE4E5B9);
        z = (z ^ (z >> 27)).wrapping_mul(0x94D049BB133111EB);
        z ^ (z >> 31)
    }
    pub fn below(&mut self, n: usize) -> usize {
        if n == 0 {
            0
        } else {
            (self.next() % n as u64) as usize
        }
    }
}

pub fn load_known_findings() -> Vec<KnownFinding> {
    let path = format!("{}/known_findings.json", verif_dir());
    let Ok(text) = std::fs::read_to_string(&path) else {
        return vec![];
    };
    let v: Value = serde_json::from_str(&text).expect("known_findings.json must be valid JSON");
    let mut out = vec![];
    for e in v["findings"].as_array().cloned().unwrap_or_default() {
        out.push(KnownFinding {
            id: e["id"].as_str().unwrap_or("").to_string(),
            property: e["property"].as_str().unwrap_or("").to_string(),
            status: e["status"].as_str().unwrap_or("").to_string(),
            signature: e["signature"].as_str().unwrap_or("").to_string(),
            summary: e["summary"].as_str().unwrap_or("").to_string(),
            also: e["also_seen_by"].as_array().map(|a| a.iter().filter_map(|x| x.as_str().map(|s| s.to_string())).collect()).unwrap_or_default(),
        });
    }
    out
}

impl Ctx {
    pub fn new(id: &str, tier: Tier, seed: u64, replay_mode: bool) -> Ctx {
        Ctx {
            id: id.to_string(),
            tier,
            seed,
            replay_mode,
            start: Instant::now(),
            stats: Mutex::new(Stats::new()),
            known: load_known_findings(),
            known_hits: Mutex::new(BTreeMap::new()),
            violations: Mutex::new(vec![]),
            rule: Mutex::new(String::new()),
            assumptions: Mutex::new(vec![]),
            exhaustive_parts: Mutex::new(vec![]),
            harness_errors: Mutex::new(vec![]),
            stop: AtomicBool::new(false),
        }
    }

    pub fn seed_for(&self, salt: &str) -> u64 {
        mix(self.seed, fnv(format!("{}:{}", self.id, salt).as_bytes()))
    }

    pub fn set_rule(&self, r: &str) {
        *self.rule.lock().unwrap() = r.to_string();
    }
    pub fn assume(&self, a: &str) {
        self.assumptions.lock().unwrap().push(a.to_string());
    }
    pub fn exhaustive_part(&self, a: &str) {
        self.exhaustive_parts.lock().unwrap().push(a.to_string());
    }
    pub fn merge(&self, s: Stats) {
        self.stats.lock().unwrap().merge(s);
    }
    pub fn harness_error(&self, msg: impl Into<String>) {
        let m = msg.into();
        eprintln!("HARNESS-ERROR property={} {}", self.id, m);
        self.harness_errors.lock().unwrap().push(m);
    }

    /// is this signature an open known finding of this property?
    pub fn is_known_open(&self, signature: &str) -> bool {
        self.known.iter().any(|k| k.applies_to(&self.id) && k.status == "open" && k.signature == signature)
    }

    /// Report a failed case. Returns true if it was a *new* violation (not on the known list).
    pub fn report(&self, f: Failure) -> bool {
        if self.is_known_open(&f.signature) {
            let mut kh = self.known_hits.lock().unwrap();
            let first = !kh.contains_key(&f.signature);
            let e = kh.entry(f.signature.clone()).or_insert((0, f.msg.clone()));
            e.0 += 1;
            if first && std::env::var("VERIF_SAVE_KNOWN").is_ok() {
                let p = self.write_replay(&f);
                eprintln!("saved known-finding case {} -> {}", f.signature, p);
            }
            false
        } else {
            let mut v = self.violations.lock().unwrap();
            // keep one per signature, at most 20
            if v.iter().any(|(g, _)| g.signature == f.signature) || v.len() >= 20 {
                return true;
            }
            let path = self.write_replay(&f);
            println!("VIOLATION property={} replay={}", self.id, path);
            println!("  signature: {}", f.signature);
            let m: String = f.msg.chars().take(1500).collect();
            println!("  {}", m.replace('\n', "\n  "));
            v.push((f, path));
            true
        }
    }

    fn write_replay(&self, f: &Failure) -> String {
        let dir = format!("{}/replays/{}", verif_dir(), self.id);
        let _ = std::fs::create_dir_all(&dir);
        let body = json!({"property": self.id, "signature": f.signature, "message": f.msg, "case": f.case});
        let text = serde_json::to_string_pretty(&body).unwrap();
        let h = fnv(serde_json::to_string(&f.case).unwrap().as_bytes());
        let path = format!("{dir}/{:016x}.json", h);
        let _ = std::fs::write(&path, text);
        path
    }

    pub fn n_violations(&self) -> usize {
        self.violations.lock().unwrap().len()
    }

    /// finish: print KNOWN-FINDING lines, write evidence, return the exit code
    pub fn finish(&self) -> i32 {
        let stats = std::mem::take(&mut *self.stats.lock().unwrap());
        let kh = self.known_hits.lock().unwrap();
        for k in self.known.iter().filter(|k| k.applies_to(&self.id) && k.status == "open") {
            if let Some((n, msg)) = kh.get(&k.signature) {
                let m: String = msg.chars().take(200).collect();
                println!(
                    "KNOWN-FINDING: property={} {} [{}] reproduced {} time(s): {}",
                    self.id,
                    k.id,
                    k.signature,
                    n,
                    m.replace('\n', " ")
                );
            }
        }
        let viol = self.violations.lock().unwrap();
        let herr = self.harness_errors.lock().unwrap();
        let distinct = stats.distinct.len() as u64 + stats.distinct_by_construction;
        let mut cov = serde_json::Map::new();
        cov.insert("evaluations".into(), json!(stats.evaluations));
        cov.insert("distinct_nontrivial".into(), json!(distinct));
        cov.insert("rule".into(), json!(self.rule.lock().unwrap().clone()));
        let mut samples = stats.samples.clone();
        samples.truncate(MAX_SAMPLES);
        cov.insert("samples".into(), json!(samples));
        cov.insert("classes".into(), json!(stats.classes));
        cov.insert("excluded_known".into(), json!(stats.excluded_known));
        cov.insert("dont_care".into(), json!(stats.dont_care));
        cov.insert("generator_discards".into(), json!(stats.discards));
        let ex = self.exhaustive_parts.lock().unwrap();
        cov.insert("exhaustive".into(), json!(false));
        cov.insert("exhaustive_subspaces".into(), json!(ex.clone()));
        let khj: BTreeMap<String, u64> = kh.iter().map(|(k, v)| (k.clone(), v.0)).collect();
        cov.insert("known_findings_reproduced".into(), json!(khj));
        cov.insert(
            "violation_replays".into(),
            json!(viol.iter().map(|(_, p)| p.clone()).collect::<Vec<_>>()),
        );
        cov.insert("harness_errors".into(), json!(herr.clone()));
        let ev = json!({
            "property_id": self.id,
            "tier": self.tier.name(),
            "seed": self.seed,
            "level": "exploration",
            "coverage": Value::Object(cov),
            "assumptions": self.assumptions.lock().unwrap().clone(),
            "wall_s": (self.start.elapsed().as_secs_f64() * 1000.0).round() / 1000.0,
            "violations": viol.len(),
        });
        if !self.replay_mode {
            let dir = format!("{}/evidence", verif_dir());
            let _ = std::fs::create_dir_all(&dir);
            let path = format!("{dir}/{}.json", self.id);
            std::fs::write(&path, serde_json::to_string_pretty(&ev).unwrap() + "\n").expect("write evidence");
        }
        println!(
            "property={} tier={} seed={} evaluations={} distinct_nontrivial={} known_reproduced={} violations={} wall_s={:.1}",
            self.id,
            self.tier.name(),
            self.seed,
            stats.evaluations,
            distinct,
            kh.len(),
            viol.len(),
            self.start.elapsed().as_secs_f64()
        );
        if !viol.is_empty() {
            1
        } else if !herr.is_empty() {
            2
        } else {
            0
        }
    }
}

// ---------------------------------------------------------------------------------------------
// panic capture

thread_local! {
    static LAST_PANIC: std::cell::RefCell<Option<String>> = const { std::cell::RefCell::new(None) };
    static QUIET: std::cell::Cell<bool> = const { std::cell::Cell::new(false) };
}

// ---------------------------------------------------------------------------------------------
// CPU-time watchdog for calls into the library that take a byte buffer (termination is part of C02's statement).
// A worker registers the input before the call; a watchdog thread samples the CPU time of the registered threads
// (/proc/self/task/<tid>/stat, so machine load does not matter) and, when one call has consumed more than the limit,
// saves the input as a replay file, reports the failure through the normal path and ends the process.

struct Watched {
    tid: u32,
    /// registration counter: tells the watchdog whether it still looks at the same call
    gen: u64,
    bytes: Vec<u8>,
    what: &'static str,
}

static WATCH_GEN: std::sync::atomic::AtomicU64 = std::sync::atomic::AtomicU64::new(1);
thread_local! {
    static OWN_TID: u32 = own_tid();
}

static WATCH: Mutex<Vec<Option<Watched>>> = Mutex::new(Vec::new());
static WATCH_CTX: std::sync::atomic::AtomicPtr<Ctx> = std::sync::atomic::AtomicPtr::new(std::ptr::null_mut());

fn own_tid() -> u32 {
    std::fs::read_link("/proc/thread-self").ok().and_then(|p| p.file_name().and_then(|n| n.to_str().map(|s| s.to_string()))).and_then(|s| s.parse().ok()).unwrap_or(0)
}

/// utime + stime of a thread of this process in clock ticks (100 per second on Linux)
fn thread_cpu_ticks(tid: u32) -> Option<u64> {
    let s = std::fs::read_to_string(format!("/proc/self/task/{tid}/stat")).ok()?;
    let rest = &s[s.rfind(')')? + 1..];
    let f: Vec<&str> = rest.split_whitespace().collect();
    // after the command name: state(0) ppid pgrp session tty tpgid flags minflt cminflt majflt cmajflt utime(11) stime(12)
    Some(f.get(11)?.parse::<u64>().ok()? + f.get(12)?.parse::<u64>().ok()?)
}

pub struct CaseGuard(usize);

/// register the input of the call that follows on this thread
pub fn watch_case(bytes: &[u8], what: &'static str) -> CaseGuard {
    if WATCH_CTX.load(Ordering::Relaxed).is_null() {
        return CaseGuard(usize::MAX);
    }
    let tid = OWN_TID.with(|t| *t);
    if tid == 0 {
        return CaseGuard(usize::MAX);
    }
    let w = Watched { tid, gen: WATCH_GEN.fetch_add(1, Ordering::Relaxed), bytes: bytes.to_vec(), what };
    let mut g = WATCH.lock().unwrap();
    if let Some(i) = g.iter().position(|x| x.is_none()) {
        g[i] = Some(w);
        CaseGuard(i)
    } else {
        g.push(Some(w));
        CaseGuard(g.len() - 1)
    }
}

impl Drop for CaseGuard {
    fn drop(&mut self) {
        if self.0 != usize::MAX {
            if let Ok(mut g) = WATCH.lock() {
                if self.0 < g.len() {
                    g[self.0] = None;
                }
            }
        }
    }
}

/// start the watchdog (once per process); `limit_s` seconds of CPU time for one call
pub fn start_watchdog(ctx: &Ctx, limit_s: u64) {
    WATCH_CTX.store(ctx as *const Ctx as *mut Ctx, Ordering::SeqCst);
    std::thread::spawn(move || {
        // (registration counter) -> CPU time of the thread when the watchdog first saw that call
        let mut first_seen: std::collections::HashMap<u64, u64> = std::collections::HashMap::new();
        loop {
        std::thread::sleep(std::time::Duration::from_millis(1500));
        let hit: Option<(Vec<u8>, &'static str, u64)> = {
            let g = WATCH.lock().unwrap();
            let live: std::collections::HashSet<u64> = g.iter().flatten().map(|w| w.gen).collect();
            first_seen.retain(|k, _| live.contains(k));
            g.iter().flatten().find_map(|w| {
                let now = thread_cpu_ticks(w.tid)?;
                let c0 = *first_seen.entry(w.gen).or_insert(now);
                let used = now.saturating_sub(c0) / 100;
                if used >= limit_s {
                    Some((w.bytes.clone(), w.what, used))
                } else {
                    None
                }
            })
        };
        if let Some((bytes, what, used)) = hit {
            let p = WATCH_CTX.load(Ordering::SeqCst);
            if !p.is_null() {
                // SAFETY: the context lives in main() for the whole process; this thread ends the process below
                let ctx: &Ctx = unsafe { &*p };
                ctx.report(Failure::new(
                    format!("no-termination:{what}"),
                    format!("{what} on an input of {} bytes has used {used} s of CPU time and has not returned (limit {limit_s} s; CPU time of the calling thread, not wall time)\n--- input ---\n{}", bytes.len(), String::from_utf8_lossy(&bytes[..bytes.len().min(2000)])),
                    json!({"kind": "bytes", "input": bytes_json(&bytes)}),
                ));
                let code = ctx.finish();
                std::process::exit(if code == 0 { 1 } else { code });
            }
        }
        }
    });
}

pub fn install_panic_hook() {
    let default = std::panic::take_hook();
    std::panic::set_hook(Box::new(move |info| {
        let quiet = QUIET.with(|q| q.get());
        if quiet {
            let loc = info.location().map(|l| format!("{}:{}", l.file(), l.line())).unwrap_or_default();
            let msg = if let Some(s) = info.payload().downcast_ref::<&str>() {
                s.to_string()
            } else if let Some(s) = info.payload().downcast_ref::<String>() {
                s.clone()
            } else {
                "<non-string panic>".to_string()
            };
            LAST_PANIC.with(|p| *p.borrow_mut() = Some(format!("{loc}: {msg}")));
        } else {
            default(info);
        }
    }));
}

/// run f, converting a panic into Err("file:line: message")
pub fn no_panic<T>(f: impl FnOnce() -> T) -> Result<T, String> {
    let prev = QUIET.with(|q| q.replace(true));
    LAST_PANIC.with(|p| *p.borrow_mut() = None);
    let r = catch_unwind(AssertUnwindSafe(f));
    QUIET.with(|q| q.set(prev));
    match r {
        Ok(v) => Ok(v),
        Err(_) => Err(LAST_PANIC.with(|p| p.borrow_mut().take()).unwrap_or_else(|| "panic".to_string())),
    }
}

/// strip the line number of a "path/file.rs:123: msg" panic description -> "file.rs: msg-prefix"
pub fn panic_site(desc: &str) -> String {
    // file path up to first ':'; we keep only the file's base name so that signatures survive
    // unrelated edits that move lines
    let mut parts = desc.splitn(3, ':');
    let file = parts.next().unwrap_or("");
    let _line = parts.next();
    let msg = parts.next().unwrap_or("").trim();
    let base = file.rsplit('/').next().unwrap_or(file);
    let short: String = msg.chars().filter(|c| !c.is_ascii_digit()).take(40).collect();
    format!("{base}:{short}")
}

// ---------------------------------------------------------------------------------------------
// proptest driver

pub fn proptest_config(cases: u32, seed: u64) -> Config {
    let mut c = Config::default();
    c.cases = cases;
    c.failure_persistence = None;
    c.rng_algorithm = RngAlgorithm::ChaCha;
    c.rng_seed = RngSeed::Fixed(seed);
    c.max_shrink_iters = 1200;
    c.max_shrink_time = 0;
    c.verbose = 0;
    c.max_local_rejects = 65_536;
    c.max_global_rejects = 1_000_000;
    c.source_file = None;
    c
}

/// What a property returns for one generated case.
pub enum Outcome {
    Pass,
    /// the case is outside the domain (counted as a discard)
    Discard,
    Fail(Failure),
}

/// Run `cases` generated cases over `workers` parallel proptest runners with fixed seeds.
/// `test` gets the value and a per-worker Stats; a failing case is shrunk by proptest (the
/// closure is re-run during shrinking with a scratch Stats, so counting stops at the first
/// failure). Known-finding failures are reported and the run continues with a fresh runner
/// seed; unknown failures are reported as violations.
pub fn run_prop<S, F>(ctx: &Ctx, salt: &str, cases: u64, strategy: S, test: F)
where
    S: Strategy + Sync,
    S::Value: std::fmt::Debug + Clone,
    F: Fn(&S::Value, &mut Stats) -> Outcome + Sync,
{
    let workers = std::thread::available_parallelism().map(|n| n.get()).unwrap_or(8).min(16).max(1);
    let workers = workers.min(cases.max(1) as usize);
    let per = cases.div_ceil(workers as u64);
    let base = ctx.seed_for(salt);
    std::thread::scope(|sc| {
        for w in 0..workers {
            let strategy = &strategy;
            let test = &test;
            sc.spawn(move || {
                let mut stats = Stats::new();
                let mut remaining = per;
                let mut epoch = 0u64;
                // after a known finding we restart the runner (new seed) for the remaining cases
                while remaining > 0 && !ctx.stop.load(Ordering::Relaxed) {
                    let seed = mix(base, (w as u64) << 32 | epoch);
                    let mut runner = TestRunner::new(proptest_config(remaining.min(u32::MAX as u64) as u32, seed));
                    let failed = std::cell::Cell::new(false);
                    let done = std::cell::Cell::new(0u64);
                    let last_failure: std::cell::RefCell<Option<Failure>> = std::cell::RefCell::new(None);
                    let stats_cell = std::cell::RefCell::new(std::mem::take(&mut stats));
                    let res = runner.run(strategy, |v| {
                        let mut scratch = Stats::new();
                        let out = if failed.get() {
                            // shrinking phase: do not count
                            no_panic(|| test(&v, &mut scratch))
                        } else {
                            let mut st = stats_cell.borrow_mut();
                            no_panic(|| test(&v, &mut st))
                        };
                        let out = match out {
                            Ok(o) => o,
                            Err(p) => Outcome::Fail(Failure::new(
                                format!("harness-panic:{}", panic_site(&p)),
                                format!("panic escaped the property closure: {p}"),
                                json!({"debug": format!("{:?}", v)}),
                            )),
                        };
                        match out {
                            Outcome::Pass => {
                                if !failed.get() {
                                    done.set(done.get() + 1);
                                }
                                Ok(())
                            }
                            Outcome::Discard => {
                                if !failed.get() {
                                    stats_cell.borrow_mut().discards += 1;
                                }
                                Err(TestCaseError::reject("discard"))
                            }
                            Outcome::Fail(f) if ctx.is_known_open(&f.signature) => {
                                // an open known finding: count it and keep searching (no shrink, no restart)
                                if !failed.get() {
                                    done.set(done.get() + 1);
                                    ctx.report(f);
                                }
                                Ok(())
                            }
                            Outcome::Fail(f) => {
                                if !failed.get() {
                                    done.set(done.get() + 1);
                                }
                                failed.set(true);
                                let sig = f.signature.clone();
                                *last_failure.borrow_mut() = Some(f);
                                Err(TestCaseError::fail(sig))
                            }
                        }
                    });
                    stats = stats_cell.into_inner();
                    match res {
                        Ok(()) => {
                            remaining = 0;
                        }
                        Err(TestError::Fail(_, v)) => {
                            // re-run the minimal value to get its failure (the last failing call
                            // during shrinking is not necessarily the minimal one)
                            let mut scratch = Stats::new();
                            let f = match no_panic(|| test(&v, &mut scratch)) {
                                Ok(Outcome::Fail(f)) => f,
                                _ => last_failure.borrow_mut().take().unwrap_or_else(|| {
                                    Failure::new("unstable", "failure did not reproduce on the shrunk value", json!(format!("{:?}", v)))
                                }),
                            };
                            let new = ctx.report(f);
                            remaining = remaining.saturating_sub(done.get().max(1));
                            epoch += 1;
                            if new {
                                // a new violation: this worker stops (others continue, they may find other signatures)
                                remaining = 0;
                            }
                        }
                        Err(TestError::Abort(why)) => {
                            ctx.harness_error(format!("proptest aborted ({salt}): {why}"));
                            remaining = 0;
                        }
                    }
                }
                ctx.merge(stats);
            });
        }
    });
}

/// simple parallel map over work items with per-worker stats
pub fn par_items<T: Sync, F>(ctx: &Ctx, items: &[T], f: F)
where
    F: Fn(&T, &mut Stats) + Sync,
{
    let workers = std::thread::available_parallelism().map(|n| n.get()).unwrap_or(8).min(16).max(1);
    let next = std::sync::atomic::AtomicUsize::new(0);
    std::thread::scope(|sc| {
        for _ in 0..workers {
            sc.spawn(|| {
                let mut stats = Stats::new();
                loop {
                    let i = next.fetch_add(1, Ordering::Relaxed);
                    if i >= items.len() || ctx.stop.load(Ordering::Relaxed) {
                        break;
                    }
                    f(&items[i], &mut stats);
                }
                ctx.merge(stats);
            });
        }
    });
}

/// Generate one value from a strategy with a fixed seed (for sampling sweeps deterministically).
pub fn gen_one<S: Strategy>(strategy: &S, seed: u64) -> S::Value {
    let mut runner = TestRunner::new(proptest_config(1, seed));
    strategy.new_tree(&mut runner).expect("strategy").current()
}

pub fn hex(bytes: &[u8]) -> String {
    let mut s = String::with_capacity(bytes.len() * 2);
    for b in bytes {
        s.push_str(&format!("{:02x}", b));
    }
    s
}

pub fn unhex(s: &str) -> Vec<u8> {
    (0..s.len() / 2).map(|i| u8::from_str_radix(&s[2 * i..2 * i + 2], 16).unwrap_or(0)).collect()
}

/// JSON form of a byte string: readable text where possible plus hex (authoritative)
pub fn bytes_json(b: &[u8]) -> Value {
    json!({"text": String::from_utf8_lossy(b), "hex": hex(b)})
}

pub fn bytes_from_json(v: &Value) -> Vec<u8> {
    if let Some(h) = v.get("hex").and_then(|h| h.as_str()) {
        unhex(h)
    } else if let Some(t) = v.get("text").and_then(|h| h.as_str()) {
        t.as_bytes().to_vec()
    } else if let Some(t) = v.as_str() {
        t.as_bytes().to_vec()
    } else {
        vec![]
    }
}
