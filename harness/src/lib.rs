//! verif harness library (shared by the `verif` binary and the fuzz targets)
#![allow(dead_code)]
pub mod adoc;
pub mod audit;
pub mod hist;
pub mod histprops;
pub mod inv;
pub mod c01;
pub mod c02;
pub mod c06;
pub mod c07;
pub mod c08;
pub mod c09;
pub mod c12;
pub mod c13;
pub mod c14;
pub mod c15;
pub mod conc;
pub mod sched;
pub mod c17;
pub mod inputs;
pub mod loader;
pub mod engine;
pub mod rx;
pub mod spec;
pub mod c18;
pub mod c19;
pub mod c20;
