//! History-driven properties: C03 (tree), C04 (paths), C05 (references), C10 (membership),
//! C11 (failed operations have no effect). One driver, per-property invariant selection,
//! weights and known-finding exclusion predicates.
#![allow(dead_code)]

use crate::audit::*;
use crate::engine::*;
use crate::hist::*;
use crate::inv::*;
use autosar_data::*;
use proptest::prelude::*;
use serde_json::{json, Value};

#[derive(Clone, Copy, PartialEq, Eq, Debug)]
pub enum Prop {
    C03,
    C04,
    C05,
    C10,
    C11,
}

impl Prop {
    pub fn id(self) -> &'static str {
        match self {
            Prop::C03 => "C03",
            Prop::C04 => "C04",
            Prop::C05 => "C05",
            Prop::C10 => "C10",
            Prop::C11 => "C11",
        }
    }
}

#[derive(Clone, Debug)]
pub struct HistCase {
    pub fixture: u32,
    pub ops: Vec<Op>,
}

impl HistCase {
    pub fn to_json(&self) -> Value {
        json!({"kind": "history", "fixture": self.fixture, "ops": ops_to_json(&self.ops)})
    }
    pub fn from_json(v: &Value) -> Option<HistCase> {
        Some(HistCase { fixture: v["fixture"].as_u64()? as u32, ops: ops_from_json(&v["ops"]) })
    }
}

pub fn weights_for(p: Prop) -> Vec<(u32, u32)> {
    use op::*;
    let mut w = default_weights();
    let mut bump = |code: u32, to: u32| {
        for x in w.iter_mut() {
            if x.0 == code {
                x.1 = to;
            }
        }
    };
    match p {
        Prop::C03 => {
            bump(REMOVE, 12);
            bump(REMOVE_KIND, 4);
            bump(MOVE, 10);
            bump(REMOVE_FILE, 3);
            bump(REMOVE_FROM_FILE, 4);
            bump(LOAD, 4);
        }
        Prop::C04 => {
            bump(RENAME, 14);
            bump(SET_DATA, 12);
            bump(MOVE, 12);
            bump(MOVE_AT, 5);
            bump(COPY, 8);
            bump(NAMED, 16);
            bump(REMOVE, 8);
            bump(LOAD, 4);
            bump(REMOVE_FILE, 2);
        }
        Prop::C05 => {
            bump(SET_REF, 16);
            bump(SET_DATA, 14);
            bump(REMOVE_DATA, 4);
            bump(RENAME, 12);
            bump(MOVE, 12);
            bump(COPY, 8);
            bump(REMOVE, 8);
            bump(LOAD, 4);
        }
        Prop::C10 => {
            bump(CREATE_FILE, 8);
            bump(ADD_TO_FILE, 12);
            bump(REMOVE_FROM_FILE, 10);
            bump(REMOVE_FILE, 5);
            bump(LOAD, 5);
            bump(SET_FILENAME, 5);
            bump(DUPLICATE, 2);
            bump(MOVE, 8);
            bump(SET_VERSION, 0);
        }
        Prop::C11 => {
            bump(LOAD, 8);
            bump(SET_VERSION, 3);
            bump(SET_FILENAME, 3);
        }
    }
    w
}

pub struct StepInfo<'a> {
    pub op: &'a Op,
    pub res: &'a OpResult,
}

fn fail(p: Prop, sig: &str, msg: String, w: &World, case: &HistCase) -> Failure {
    let log = w.log.iter().enumerate().map(|(i, l)| format!("  {i:2}: {l}")).collect::<Vec<_>>().join("\n");
    Failure::new(sig, format!("{msg}\n--- history (fixture {}) ---\n{log}", case.fixture), {
        let mut j = case.to_json();
        j["property"] = json!(p.id());
        j
    })
}

/// Run one history under the property's oracle. Returns Ok(classification) or the failure.
pub fn run_history(p: Prop, case: &HistCase, st: &mut Stats, known_open: &dyn Fn(&str) -> bool) -> Result<(), Failure> {
    let audit = Audit::install();
    let mut w = World::fixture(case.fixture);
    w.audit_mode = true;
    st.eval();
    let mut nontrivial = false;
    let mut fingerprint: u64 = case.fixture as u64;
    // initial state must satisfy the invariants too
    check_all(p, &mut w, case, 0, st, known_open)?;
    for (step, o) in case.ops.iter().enumerate() {
        // --- pre-state (C11) and exclusion predicates of open known findings
        if let Some(kf) = excluded_by_known_finding(p, &mut w, o, known_open) {
            st.excluded(kf);
            continue;
        }
        let pre: Vec<Snapshot> = if p == Prop::C11 { (0..w.models.len()).map(|mi| snapshot(&mut w, mi, false)).collect() } else { vec![] };
        let stale_before = w.stale_ids().len();
        let nfiles_before: Vec<usize> = w.models.iter().map(|m| m.files().count()).collect();
        let r = no_panic(|| w.apply(o));
        let conflicts = audit.take_conflicts();
        let res = match r {
            Ok(res) => res,
            Err(pmsg) => {
                // a panic or self-deadlock inside the library: C12's business; the state may be torn
                audit.reset_held();
                st.class(if pmsg.contains(DEADLOCK_PANIC) { "aborted:self-deadlock(C12)" } else { "aborted:panic(C12)" });
                return Ok(());
            }
        };
        let _ = conflicts;
        if res.skipped {
            continue;
        }
        fingerprint = mix(fingerprint, mix(o.code as u64, fnv(res.desc.as_bytes())));
        // --- open finding KF-C09-1: a merge imports a second copy of an identifiable element that already
        // exists under the same parent (the positional walk misses it when sibling kinds are ordered
        // differently). The model is corrupt afterwards (two elements with one path): the history ends.
        if o.code == op::LOAD && res.ok {
            w.rescan();
            if let Some(msg) = merge_duplicate(&mut w, res.model) {
                let sig = if msg.starts_with("[ONE-KIND]") { "merge:duplicate-imported:named-siblings-of-one-kind" } else { "merge:duplicate-of-existing-identifiable-imported" };
                let f = fail(p, sig, msg, &w, case);
                if known_open(&f.signature) {
                    st.class("ended:merge-duplicate(KF-C09-1)");
                    return Err(f);
                }
                return Err(f);
            }
        }
        // --- open finding KF-C13-1: duplicate() of a model whose files have different versions filters the content by the
        // lowest version and then pairs original and copy element by element (zip of two DFS walks) to transfer the file
        // sets: the copy has another shape, so the file sets land on the wrong elements. The history ends.
        if o.code == op::DUPLICATE && res.ok && w.models.len() >= 2 {
            let orig = w.models[res.model].clone();
            let dup = w.models[w.models.len() - 1].clone();
            let mut vs: Vec<String> = orig.files().map(|f| format!("{:?}", f.version())).collect();
            vs.sort();
            vs.dedup();
            if vs.len() >= 2 {
                let a: Vec<autosar_data::ElementName> = orig.elements_dfs().map(|(_, e)| e.element_name()).collect();
                let b: Vec<autosar_data::ElementName> = dup.elements_dfs().map(|(_, e)| e.element_name()).collect();
                if a != b {
                    w.rescan();
                    let f = fail(p, "duplicate:mixed-version-model:content-filtered-by-lowest-file-version", format!("the model has files of versions {vs:?}; the duplicate has {} elements, the original {}", b.len(), a.len()), &w, case);
                    if known_open(&f.signature) {
                        st.class("ended:duplicate-of-mixed-version-model(KF-C13-1)");
                    }
                    return Err(f);
                }
            }
        }
        st.class(&format!("op:{}:{}", op::NAMES[o.code as usize], if res.ok { "ok" } else { "err" }));
        w.rescan();
        // --- open finding KF-C11-1: a load rejected in the merge phase leaves partial imports behind; for the
        // other history properties the model is in an undefined state then: the history ends
        if p != Prop::C11 && o.code == op::LOAD && res.err.as_deref() == Some("InvalidFileMerge") && known_open("failed-op-changed-state:load:InvalidFileMerge:file-sets-of-existing-elements") {
            st.class("ended:failed-merge(KF-C11-1)");
            return Ok(());
        }
        // --- non-triviality rules
        match p {
            Prop::C03 => {
                if w.stale_ids().len() > stale_before || (res.ok && matches!(o.code, op::MOVE | op::MOVE_AT | op::LOAD)) {
                    nontrivial = true;
                }
            }
            Prop::C04 => {
                if res.ok && matches!(o.code, op::RENAME | op::MOVE | op::MOVE_AT | op::COPY | op::COPY_AT | op::REMOVE | op::LOAD | op::SET_DATA | op::REMOVE_FILE) {
                    nontrivial = true;
                }
            }
            Prop::C05 => {
                if res.ok && matches!(o.code, op::SET_REF | op::SET_DATA | op::RENAME | op::MOVE | op::MOVE_AT | op::COPY | op::REMOVE | op::REMOVE_DATA | op::LOAD) {
                    nontrivial = true;
                }
            }
            Prop::C10 => {
                if nfiles_before.iter().any(|n| *n >= 2) && res.ok && matches!(o.code, op::ADD_TO_FILE | op::REMOVE_FROM_FILE | op::REMOVE_FILE | op::MOVE | op::MOVE_AT | op::COPY | op::REMOVE | op::NAMED | op::CREATE | op::LOAD) {
                    nontrivial = true;
                }
            }
            Prop::C11 => {
                if !res.ok {
                    nontrivial = true;
                    st.class(&format!("failed-call:{}:{}", op::NAMES[o.code as usize], res.err.clone().unwrap_or_default()));
                }
            }
        }
        // --- C11 oracle: a failed call leaves every model unchanged
        if p == Prop::C11 && !res.ok && o.code != op::REMOVE_ATTR {
            for mi in 0..pre.len() {
                let post = snapshot(&mut w, mi, false);
                if let Some(d) = pre[mi].diff(&post) {
                    let kind = if res.is_load { format!("load:{}", res.err.clone().unwrap_or_default()) } else { format!("{}:{}", op::NAMES[o.code as usize], res.err.clone().unwrap_or_default()) };
                    let mut sig = format!("failed-op-changed-state:{kind}");
                    if kind == "load:InvalidFileMerge" {
                        // the recorded finding KF-C11-1 is about WHAT a rejected merge leaves behind: the component is part of the signature
                        let comp = if d.starts_with("file list") {
                            "file-list"
                        } else if d.starts_with("element tree") {
                            "elements-remain-in-the-tree"
                        } else if d.contains("file membership differs") {
                            "file-sets-of-existing-elements"
                        } else if d.starts_with("element #") {
                            "content-of-existing-elements"
                        } else if d.starts_with("identifiable_elements") || d.starts_with("get_element_by_path") {
                            "path-index"
                        } else if d.starts_with("referrers") || d.starts_with("check_references") {
                            "reference-index"
                        } else {
                            "file-text"
                        };
                        sig = format!("{sig}:{comp}");
                    }
                    let f = fail(p, &sig, format!("step {step} returned an error but model {mi} changed: {d}"), &w, case);
                    if known_open(&sig) {
                        // state is legitimately different now; report and stop this history
                        return Err(f);
                    }
                    return Err(f);
                }
            }
        }
        check_all(p, &mut w, case, step + 1, st, known_open)?;
    }
    if nontrivial {
        st.nontrivial(fingerprint);
    }
    if st.want_sample() && w.log.len() >= 4 && nontrivial {
        st.sample(json!({"fixture": case.fixture, "history": w.log.clone()}));
    }
    drop(audit);
    Ok(())
}

fn check_all(p: Prop, w: &mut World, case: &HistCase, step: usize, _st: &mut Stats, _known_open: &dyn Fn(&str) -> bool) -> Result<(), Failure> {
    for mi in 0..w.models.len() {
        let s = scan(w, mi);
        let r = match p {
            // the file-scoped iterators (with and without depth limit) belong to C03's statement as well: of the
            // membership invariant only those two comparisons are C03's
            Prop::C03 => inv_tree(w, mi, &s, true).and_then(|_| match inv_membership(w, mi, &s, false) {
                Err((sig, msg)) if sig.starts_with("membership:file-dfs") => Err((sig.replace("membership:", "tree:"), msg)),
                _ => Ok(()),
            }),
            Prop::C04 => inv_paths(w, mi, &s),
            Prop::C05 => inv_refs(w, mi, &s),
            Prop::C10 => inv_membership(w, mi, &s, true),
            Prop::C11 => Ok(()),
        };
        if let Err((sig, msg)) = r {
            return Err(fail(p, &sig, format!("after step {step}, model {mi}: {msg}"), w, case));
        }
    }
    if p == Prop::C03 {
        if let Err((sig, msg)) = inv_stale(w, 6, step as u32) {
            return Err(fail(p, &sig, format!("after step {step}: {msg}"), w, case));
        }
        // mutating requests through one stale handle: must fail and leave all models unchanged
        let stale = w.stale_ids();
        if !stale.is_empty() && step % 3 == 0 {
            let id = stale[(step * 31) % stale.len()];
            let pre: Vec<Snapshot> = (0..w.models.len()).map(|mi| snapshot(w, mi, false)).collect();
            let okc = match no_panic(|| stale_mutations(w, id, step as u32)) {
                Ok(v) => v,
                Err(_) => vec![],
            };
            w.rescan();
            if !okc.is_empty() {
                return Err(fail(p, &format!("stale:mutation-succeeds:{}", okc[0].split([' ', '(']).next().unwrap_or("")), format!("after step {step}: through stale handle #{id} <{}> these calls succeeded: {:?}", w.elems[id].element_name(), okc), w, case));
            }
            for mi in 0..pre.len() {
                let post = snapshot(w, mi, false);
                if let Some(d) = pre[mi].diff(&post) {
                    return Err(fail(p, "stale:live-model-changed", format!("after step {step}: failed calls through stale handle #{id} changed model {mi}: {d}"), w, case));
                }
            }
        }
    }
    Ok(())
}

pub fn excluded_pub(w: &mut World, o: &Op, known_open: &dyn Fn(&str) -> bool) -> Option<&'static str> {
    excluded_by_known_finding(Prop::C03, w, o, known_open)
}

/// detector for KF-C09-1: two sibling elements with the same element name and item name, one of which
/// is restricted to exactly one file (the one just merged)
fn merge_duplicate(w: &mut World, mi: usize) -> Option<String> {
    let s = scan(w, mi);
    for (p, ids) in &s.paths {
        if ids.len() > 1 {
            let (a, b) = (ids[0], ids[1]);
            let same_kind = w.elems[a].element_name() == w.elems[b].element_name();
            let pa = w.elems[a].parent().ok().flatten();
            let pb = w.elems[b].parent().ok().flatten();
            if same_kind && pa.is_some() && pa == pb {
                // KF-C09-1 needs named siblings of DIFFERENT kinds under the parent (the positional walk decides "only in the
                // new file" from the specification order of two different kinds); with one kind only it is something else
                let mut kinds: Vec<String> = pa.as_ref().unwrap().sub_elements().filter(|k| k.is_identifiable()).map(|k| k.element_name().to_string()).collect();
                kinds.sort();
                kinds.dedup();
                let tag = if kinds.len() >= 2 { "" } else { "[ONE-KIND]" };
                return Some(format!("{tag}after the merge two <{}> siblings have the path {p:?}", w.elems[a].element_name()));
            }
        }
    }
    None
}

/// Exclusion predicates of open known findings, evaluated on the pre-state. Returns the id of
/// the finding that excludes the operation.
fn excluded_by_known_finding(p: Prop, w: &mut World, o: &Op, known_open: &dyn Fn(&str) -> bool) -> Option<&'static str> {
    let _ = p;
    // KF-C04-1: copy / move of a NON-identifiable container whose identifiable children collide with
    // existing paths below the destination (only the copied element's own name is made unique)
    if matches!(o.code, op::COPY | op::COPY_AT | op::MOVE | op::MOVE_AT) && known_open("container-copy-or-move:child-path-collides-in-destination") {
        if let Some((pid, sid)) = w.peek_copy_move(o) {
            if container_children_collide(w, pid, sid, matches!(o.code, op::MOVE | op::MOVE_AT)) {
                return Some("KF-C04-1");
            }
        }
    }
    // KF-C07-2: a copied / moved element keeps its element type even where the destination prescribes another type for that
    // name (ELEMENTS of a package copied into a DIAGNOSTIC-CONTRIBUTION-SET): the written file does not validate
    if known_open("structure:element-type-differs-from-specification") && crate::c07::copy_keeps_foreign_type(w, o) {
        return Some("KF-C07-2");
    }
    // KF-C04-3: copy of a SHORT-NAME element (gives its new parent an item name behind the back of the path index)
    if matches!(o.code, op::COPY | op::COPY_AT | op::COPY_X) && known_open("copy-of-short-name-element:parent-not-registered-in-path-index") {
        if let Some((_pid, sid)) = w.peek_copy_move(o) {
            if w.elems[sid].element_name() == autosar_data::ElementName::ShortName {
                return Some("KF-C04-3");
            }
        }
    }
    // KF-C04-4: move of a SHORT-NAME element (takes the name from its old parent and gives one to the new parent, both behind
    // the back of the path index)
    if matches!(o.code, op::MOVE | op::MOVE_AT) && known_open("move-of-short-name-element:path-index-not-updated") {
        if let Some((_pid, sid)) = w.peek_copy_move(o) {
            if w.elems[sid].element_name() == autosar_data::ElementName::ShortName {
                return Some("KF-C04-4");
            }
        }
    }
    // KF-C10-1: remove_from_file on the ROOT element
    if o.code == op::REMOVE_FROM_FILE && known_open("root-element-removed-from-a-file") {
        if let Some((eid, _fi)) = w.peek_elem_file(o) {
            let e = w.elems[eid].clone();
            if e.element_name() == autosar_data::ElementName::Autosar && w.live_set.contains(&eid) {
                return Some("KF-C10-1");
            }
        }
    }
    None
}

/// names of the first identifiable elements on every branch below (and excluding) a non-identifiable element
fn top_identifiables(e: &autosar_data::Element, out: &mut Vec<String>) {
    for c in e.sub_elements() {
        match own_item_name(&c) {
            Some(Some(n)) => out.push(n),
            _ => top_identifiables(&c, out),
        }
    }
}

pub fn container_children_collide_pub(w: &mut World, pid: usize, sid: usize) -> bool {
    // conservative for callers that do not say whether it is a move: treat as copy (the source stays)
    container_children_collide(w, pid, sid, false)
}

fn container_children_collide(w: &mut World, pid: usize, sid: usize, is_move: bool) -> bool {
    let src = w.elems[sid].clone();
    if matches!(own_item_name(&src), Some(Some(_))) {
        return false;
    }
    let mut names = vec![];
    top_identifiables(&src, &mut names);
    if names.is_empty() {
        return false;
    }
    // destination prefix: path of the nearest identifiable ancestor-or-self of the destination parent
    let mut cur = Some(w.elems[pid].clone());
    let mut comps: Vec<String> = vec![];
    let mut guard = 0;
    while let Some(e) = cur {
        guard += 1;
        if guard > 64 {
            break;
        }
        if let Some(Some(n)) = own_item_name(&e) {
            comps.push(n);
        }
        cur = e.parent().ok().flatten();
    }
    comps.reverse();
    let prefix: String = comps.iter().map(|c| format!("/{c}")).collect();
    let mi = w.model_of_pub(pid);
    let model = w.models[mi].clone();
    let moved_subtree: std::collections::HashSet<autosar_data::Element> = src.elements_dfs().map(|(_, e)| e).collect();
    // (a moved sub tree leaves its old place, a copied one stays and can collide with its own copy)
    names.iter().any(|n| model.get_element_by_path(&format!("{prefix}/{n}")).is_some_and(|e| !is_move || !moved_subtree.contains(&e))) || {
        // collisions among the children themselves in the destination namespace
        let mut sorted = names.clone();
        sorted.sort();
        sorted.windows(2).any(|w| w[0] == w[1])
    }
}

pub fn strategy(p: Prop, maxlen: usize) -> impl Strategy<Value = (u32, Vec<Op>)> {
    (0u32..4, proptest::collection::vec(op_strategy(&weights_for(p)), 0..maxlen))
}

pub fn run(ctx: &Ctx, p: Prop) {
    let rule = match p {
        Prop::C03 => "Histories of public API calls (29 operation kinds, symbolic handles incl. stale ones, fixtures: loaded / empty model, optional second model) of length <= 40; after every step the tree is recomputed by own recursion over content() and compared with parent(), position(), get_sub_element_at(), model(), sub_elements() and the model-, element- and depth-limited DFS iterators; stale handles must fail for place-dependent requests and must not change the live model. Non-trivial: a structural edit made a handle stale, or a move/load succeeded; distinct by executed call sequence.",
        Prop::C04 => "Naming-biased histories (rename, direct SHORT-NAME edits, moves, copies, removals, loads/merges, file removal) of length <= 40; after every step the map path -> element derived from the tree (concatenated item names) is compared with identifiable_elements(), get_element_by_path() on all expected, former (ghost) and one-edit paths, Element::path(), and pairwise distinctness. Non-trivial: a successful rename/move/copy/remove/load/SHORT-NAME edit; distinct by executed call sequence.",
        Prop::C05 => "Reference-biased histories (set_reference_target, text edits of references, clearing, rename/move/copy/delete of references and targets, loads) of length <= 40; after every step the multimap text -> reference elements derived from the tree is compared with ALL keys of the reverse map (hook) and get_references_to(); check_references() must equal the set of references whose target is missing or whose DEST does not fit, and r is outside the report exactly when get_reference_target(r) returns the expected element. Non-trivial: >= 1 successful edit touching a reference or target; distinct by executed call sequence. Second sub-property (loaded-references): generated documents whose reference texts are padded with white space / line breaks or written with a character reference are loaded (strict and lenient); the same comparison runs after the load and after a rename of a target (non-trivial: a padded or escaped text).",
        Prop::C10 => "File-set histories (create_file, add_to_file, remove_from_file, remove_file, load, set_filename, duplicate, structural edits) on 1-4 files; after every step: local set is a subset of the parent's effective set and of the model's files, every element is in >= 1 file, file.elements_dfs() and the re-loaded file.serialize() equal the projection of the tree onto the file. Non-trivial: a successful structural or file-set edit while the model has >= 2 files; distinct by executed call sequence.",
        Prop::C11 => "Histories in which every call that returns an error (incl. loads failing in the lexer, late in the parser, in the merge, in the overlap check, on a duplicate file name) is framed by a full snapshot (tree with values, attributes, comments, local file sets; identifiable map; path lookups incl. ghost paths; reverse reference map; invalid-reference report; file list): snapshot before == snapshot after. Non-trivial: the history contains a failing call; distinct by executed call sequence. Second sub-property (lowered-version): the fixture's AR-PACKAGES is added to a new file of an older version (which lowers the version its content has to fit), then generated repositions of elements inside their own parent (move_element_here_at / move_element_here) and create_sub_element_at calls are framed by the same snapshot comparison.",
    };
    ctx.set_rule(rule);
    ctx.assume("element identity is the crate's Element: Eq + Hash (pointer identity); the tree is read through content() only");
    let (cases, maxlen) = match p {
        Prop::C10 => (ctx.tier.pick(30_000u64, 300_000u64), 30),
        Prop::C11 => (ctx.tier.pick(30_000u64, 300_000u64), 30),
        _ => (ctx.tier.pick(30_000u64, 300_000u64), 40),
    };
    let known_open = |sig: &str| ctx.is_known_open(sig);
    demonstrations(ctx, p);
    run_prop(ctx, "histories", cases, strategy(p, maxlen), |(fixture, ops), st| {
        let case = HistCase { fixture: *fixture, ops: ops.clone() };
        match run_history(p, &case, st, &known_open) {
            Ok(()) => Outcome::Pass,
            Err(f) => Outcome::Fail(f),
        }
    });
    if p == Prop::C11 {
        // calls on content that was valid when built and is not permitted any more after an older file took it in
        let n = ctx.tier.pick(3_000u64, 30_000u64);
        let strat = (0u8..5, proptest::collection::vec((any::<u16>(), 0u8..6, 0u8..3), 1..12));
        run_prop(ctx, "lowered-version", n, strat, |(vsel, steps), st| match run_lowered_version(*vsel, steps, st) {
            Ok(()) => Outcome::Pass,
            Err(f) => Outcome::Fail(f),
        });
    }
    if p == Prop::C05 {
        // the parser's own registration of references: texts padded with white space / written with character references
        let n = ctx.tier.pick(4_000u64, 40_000u64);
        let strat = (proptest::collection::vec((0u8..6, 0u8..6, 0u8..6, proptest::bool::weighted(0.2)), 1..8), any::<bool>());
        run_prop(ctx, "loaded-references", n, strat, |(refs, strict), st| match run_loaded_refs(&loaded_refs_doc(refs), *strict, st) {
            Ok(()) => Outcome::Pass,
            Err(f) => Outcome::Fail(f),
        });
    }
}

/// demonstrations of the open findings that are excluded from the generators by construction
fn demonstrations(ctx: &Ctx, p: Prop) {
    use autosar_data::*;
    let mut st = Stats::new();
    if p == Prop::C04 {
        // KF-C04-1: copy a non-identifiable container whose child collides with an existing path
        st.eval();
        let mut w = World::fixture(0);
        let m = w.models[0].clone();
        let r = (|| -> Result<bool, AutosarDataError> {
            let inner = m.get_element_by_path("/pkg1/a").ok_or(AutosarDataError::ItemDeleted)?;
            inner.set_item_name("b")?;
            let container = inner.parent()?.ok_or(AutosarDataError::ItemDeleted)?; // <AR-PACKAGES> inside /pkg1
            let dest = m.get_element_by_path("/a").ok_or(AutosarDataError::ItemDeleted)?;
            dest.create_copied_sub_element(&container)?;
            w.rescan();
            let s = scan(&mut w, 0);
            Ok(s.paths.get("/a/b").is_some_and(|v| v.len() > 1))
        })();
        if let Ok(true) = r {
            ctx.report(Failure::new("container-copy-or-move:child-path-collides-in-destination", "after copying the <AR-PACKAGES> of /pkg1 (holding package b) into /a, which already has the COMPU-METHOD /a/b, two elements have the path /a/b", json!({"kind": "demonstration", "finding": "KF-C04-1"})));
        }
    }
    if p == Prop::C04 {
        // KF-C04-3: a SHORT-NAME element copied into an element of a named type that has none (possible after a lenient load)
        st.eval();
        let m = AutosarModel::new();
        let doc = format!("<?xml version=\"1.0\" encoding=\"utf-8\"?>\n{}<AR-PACKAGES><AR-PACKAGE><SHORT-NAME>p</SHORT-NAME><ELEMENTS><SYSTEM-SIGNAL></SYSTEM-SIGNAL><UNIT><SHORT-NAME>u</SHORT-NAME></UNIT></ELEMENTS></AR-PACKAGE></AR-PACKAGES></AUTOSAR>", crate::inputs::autosar_open(AutosarVersion::Autosar_00050));
        let r = (|| -> Option<bool> {
            m.load_buffer(doc.as_bytes(), "lenient.arxml", false).ok()?;
            let sig = m.root_element().elements_dfs().map(|(_, e)| e).find(|e| e.element_name() == ElementName::SystemSignal)?;
            let name_elem = m.get_element_by_path("/p/u")?.get_sub_element(ElementName::ShortName)?;
            sig.create_copied_sub_element(&name_elem).ok()?;
            Some(sig.item_name().as_deref() == Some("u") && sig.path().ok().as_deref() == Some("/p/u") && m.identifiable_elements().filter(|(p, _)| p == "/p/u").count() == 1 && m.get_element_by_path("/p/u").is_some_and(|e| e != sig))
        })();
        if let Some(true) = r {
            ctx.report(Failure::new("copy-of-short-name-element:parent-not-registered-in-path-index", "a SYSTEM-SIGNAL without SHORT-NAME (lenient load) gets the SHORT-NAME 'u' by create_copied_sub_element(<SHORT-NAME> of /p/u): it now reports the path /p/u, which the index still maps to the UNIT only - no uniqueness check, no index entry", json!({"kind": "demonstration", "finding": "KF-C04-3"})));
        }
    }
    if p == Prop::C04 {
        // KF-C04-4: a SHORT-NAME element MOVED into an element of a named type that has none
        st.eval();
        let m = AutosarModel::new();
        let doc = format!("<?xml version=\"1.0\" encoding=\"utf-8\"?>\n{}<AR-PACKAGES><AR-PACKAGE><SHORT-NAME>p</SHORT-NAME><ELEMENTS><SYSTEM-SIGNAL></SYSTEM-SIGNAL><UNIT><SHORT-NAME>u</SHORT-NAME></UNIT></ELEMENTS></AR-PACKAGE></AR-PACKAGES></AUTOSAR>", crate::inputs::autosar_open(AutosarVersion::Autosar_00050));
        let r = (|| -> Option<bool> {
            m.load_buffer(doc.as_bytes(), "lenient.arxml", false).ok()?;
            let sig = m.root_element().elements_dfs().map(|(_, e)| e).find(|e| e.element_name() == ElementName::SystemSignal)?;
            let unit = m.get_element_by_path("/p/u")?;
            let name_elem = unit.get_sub_element(ElementName::ShortName)?;
            sig.move_element_here(&name_elem).ok()?;
            // the SYSTEM-SIGNAL is now the element named u; the UNIT has no name any more; the index still says /p/u -> UNIT
            Some(sig.item_name().as_deref() == Some("u") && unit.item_name().is_none() && m.get_element_by_path("/p/u").is_some_and(|e| e == unit))
        })();
        if let Some(true) = r {
            ctx.report(Failure::new("move-of-short-name-element:path-index-not-updated", "move_element_here(<SHORT-NAME> of the UNIT /p/u) into a SYSTEM-SIGNAL without SHORT-NAME (lenient load) succeeds: the SYSTEM-SIGNAL is now named u, the UNIT has lost its name (which remove_sub_element refuses with ShortNameRemovalForbidden), and the path index still maps /p/u to the nameless UNIT", json!({"kind": "demonstration", "finding": "KF-C04-4"})));
        }
    }
    if p == Prop::C11 {
        // KF-C11-4: a move that needs a uniqueness suffix on a 127-character name fails AFTER it has changed the model
        st.eval();
        let long = format!("L{}", "2345678901".repeat(13))[..127].to_string();
        let mut w = World::fixture(0);
        let m = w.models[0].clone();
        let r = (|| -> Option<String> {
            m.get_element_by_path("/pkg1/x9")?.set_item_name(&long).ok()?;
            let unit = m.get_element_by_path("/a/x10")?;
            unit.set_item_name(&long).ok()?;
            let dest = m.get_element_by_path("/pkg1")?.get_sub_element(ElementName::Elements)?;
            w.rescan();
            let before = snapshot(&mut w, 0, false);
            let res = dest.move_element_here(&unit);
            w.rescan();
            let after = snapshot(&mut w, 0, false);
            match (res, before.diff(&after)) {
                (Err(e), Some(d)) => Some(format!("{}: {}", crate::hist::err_variant(&e), d.replace(&long, "<127 characters>"))),
                _ => None,
            }
        })();
        if let Some(d) = r {
            ctx.report(Failure::new("failed-op-changed-state:move:unique-name-longer-than-128", format!("move_element_here of an element with a 127-character name into a parent that already has that name returns an error but the model changed: {d}"), json!({"kind": "demonstration", "finding": "KF-C11-4"})));
        }
    }
    if p == Prop::C10 {
        // KF-C10-1: the root element removed from its only file
        st.eval();
        let w = World::fixture(2);
        let m = w.models[0].clone();
        let f = w.files[0].file.clone();
        let root = m.root_element();
        let _ = root.create_sub_element(ElementName::ArPackages);
        if root.remove_from_file(&f).is_ok() && m.files().count() == 1 && root.file_membership().is_err() {
            ctx.report(Failure::new("root-element-removed-from-a-file", "root_element().remove_from_file(only file) succeeds; afterwards the model still lists the file but file_membership() of the root fails with NoFilesInModel", json!({"kind": "demonstration", "finding": "KF-C10-1"})));
        }
    }
    ctx.merge(st);
}


// ---------------------------------------------------------------------------------------------
// C05, second sub-property: references that come from a LOADED document (parser path of the reverse map)

const PADS: [&str; 6] = ["", " ", "\n      ", "\t", " \n ", "\r\n  "];

/// renders the document of a loaded-references case: package /p with SYSTEM-SIGNALs s0..s3 and one I-SIGNAL per reference;
/// every reference text is a path (existing or dangling), optionally written with a character reference, padded with white space
pub fn loaded_refs_doc(refs: &[(u8, u8, u8, bool)]) -> String {
    let mut d = format!("<?xml version=\"1.0\" encoding=\"utf-8\"?>\n{}<AR-PACKAGES><AR-PACKAGE><SHORT-NAME>p</SHORT-NAME><ELEMENTS>", crate::inputs::autosar_open(AutosarVersion::Autosar_00050));
    for i in 0..4 {
        d.push_str(&format!("<SYSTEM-SIGNAL><SHORT-NAME>s{i}</SHORT-NAME></SYSTEM-SIGNAL>"));
    }
    for (k, (t, a, b, esc)) in refs.iter().enumerate() {
        let path = match t % 6 {
            4 => "/p/none".to_string(),
            5 => "/p".to_string(),
            i => format!("/p/s{i}"),
        };
        let text = if *esc { path.replacen('/', "&#47;", 1) } else { path };
        d.push_str(&format!("<I-SIGNAL><SHORT-NAME>i{k}</SHORT-NAME><SYSTEM-SIGNAL-REF DEST=\"SYSTEM-SIGNAL\">{}{}{}</SYSTEM-SIGNAL-REF></I-SIGNAL>", PADS[*a as usize % PADS.len()], text, PADS[*b as usize % PADS.len()]));
    }
    d.push_str("</ELEMENTS></AR-PACKAGE></AR-PACKAGES></AUTOSAR>");
    d
}

pub fn run_loaded_refs(doc: &str, strict: bool, st: &mut Stats) -> Result<(), Failure> {
    st.eval();
    let case = json!({"kind": "loaded-refs", "doc": doc, "strict": strict});
    let mut w = World::new(1);
    let f = match w.models[0].load_buffer(doc.as_bytes(), "refs.arxml", strict) {
        Ok((f, _)) => f,
        Err(e) => {
            let _ = e;
            st.class("loaded-refs:load-rejected");
            return Ok(());
        }
    };
    w.files.push(FileH { model: 0, file: f });
    let mut padded = false;
    for stage in ["after-load", "after-rename-of-a-target"] {
        w.rescan();
        let s = scan(&mut w, 0);
        padded |= doc.contains("\n      /") || doc.contains(" /") || doc.contains("\t/") || doc.contains("\t&") || doc.contains(" &#47;");
        if let Err((sig, m)) = inv_refs(&mut w, 0, &s) {
            return Err(Failure::new(&format!("loaded-refs:{sig}"), format!("{stage}: {m}\n--- document (strict={strict}) ---\n{doc}"), case));
        }
        if stage == "after-load" {
            if let Some(t) = w.models[0].get_element_by_path("/p/s0") {
                let _ = t.set_item_name("r0");
            }
        }
    }
    st.class("loaded-refs:ok");
    if padded {
        st.nontrivial(fnv(doc.as_bytes()));
        if st.want_sample() {
            st.sample(json!({"loaded_document": doc, "strict": strict}));
        }
    }
    Ok(())
}


// ---------------------------------------------------------------------------------------------
// C11, second sub-property: calls that fail LATE because the permitted version of the content was lowered after it was built

const OLD_VERSIONS: [AutosarVersion; 5] = [AutosarVersion::Autosar_4_0_1, AutosarVersion::Autosar_4_1_1, AutosarVersion::Autosar_4_3_0, AutosarVersion::Autosar_00044, AutosarVersion::Autosar_00048];

pub fn run_lowered_version(vsel: u8, steps: &[(u16, u8, u8)], st: &mut Stats) -> Result<(), Failure> {
    st.eval();
    let case = json!({"kind": "lowered-version", "vsel": vsel, "steps": steps.iter().map(|(a, b, c)| json!([a, b, c])).collect::<Vec<_>>()});
    let mut w = World::fixture(0);
    let m = w.models[0].clone();
    let old = OLD_VERSIONS[vsel as usize % OLD_VERSIONS.len()];
    let mut log = vec![];
    let Ok(fo) = m.create_file("old.arxml", old) else { return Ok(()) };
    w.files.push(FileH { model: 0, file: fo.clone() });
    let Some(pk) = m.root_element().get_sub_element(ElementName::ArPackages) else { return Ok(()) };
    if pk.add_to_file(&fo).is_err() {
        st.class("lowered-version:add_to_file-refused");
        return Ok(());
    }
    log.push(format!("create_file(\"old.arxml\", {old:?}); <AR-PACKAGES>.add_to_file(old.arxml)"));
    let mut failing = 0;
    for (sel, pos, kind) in steps {
        w.rescan();
        let ids: Vec<usize> = w.live[0].iter().map(|x| x.0).collect();
        if ids.len() < 2 {
            break;
        }
        let e = w.elems[ids[1 + ((*sel as usize * (ids.len() - 1)) >> 16)]].clone();
        let Ok(Some(p)) = e.parent() else { continue };
        let before = snapshot(&mut w, 0, false);
        let (what, res): (String, Result<(), AutosarDataError>) = match kind % 3 {
            0 => (format!("<{}>.move_element_here_at(its own child <{}>, {pos})", p.element_name(), e.element_name()), crate::engine::no_panic(|| p.move_element_here_at(&e, *pos as usize).map(|_| ())).unwrap_or(Ok(()))),
            1 => (format!("<{}>.move_element_here(its own child <{}>)", p.element_name(), e.element_name()), crate::engine::no_panic(|| p.move_element_here(&e).map(|_| ())).unwrap_or(Ok(()))),
            _ => (format!("<{}>.create_sub_element_at({}, {pos})", p.element_name(), e.element_name()), crate::engine::no_panic(|| p.create_sub_element_at(e.element_name(), *pos as usize).map(|_| ())).unwrap_or(Ok(()))),
        };
        log.push(format!("{} {what}", if res.is_ok() { "ok   " } else { "ERROR" }));
        if let Err(err) = res {
            failing += 1;
            st.class(&format!("lowered-version:failing-call:{}", crate::hist::err_variant(&err)));
            w.rescan();
            let after = snapshot(&mut w, 0, false);
            if let Some(d) = before.diff(&after) {
                let k = ["move_at-same-parent", "move-same-parent", "create_at"][(*kind % 3) as usize];
                return Err(Failure::new(&format!("failed-op-changed-state:lowered-version:{k}:{}", crate::hist::err_variant(&err)), format!("the call returned {err} but the model changed: {d}\n--- history (fixture 0) ---\n  {}", log.join("\n  ")), case));
            }
        }
    }
    if failing > 0 {
        st.nontrivial(fnv(log.join("\n").as_bytes()));
        if st.want_sample() {
            st.sample(json!({"lowered_version_history": log}));
        }
    }
    Ok(())
}

pub fn replay(ctx: &Ctx, p: Prop, case: &Value) {
    let mut st = Stats::new();
    if case["kind"] == "lowered-version" {
        let steps: Vec<(u16, u8, u8)> = case["steps"].as_array().map(|a| a.iter().map(|t| (t[0].as_u64().unwrap_or(0) as u16, t[1].as_u64().unwrap_or(0) as u8, t[2].as_u64().unwrap_or(0) as u8)).collect()).unwrap_or_default();
        if let Err(f) = run_lowered_version(case["vsel"].as_u64().unwrap_or(0) as u8, &steps, &mut st) {
            ctx.report(f);
        }
    } else if case["kind"] == "loaded-refs" {
        if let Err(f) = run_loaded_refs(case["doc"].as_str().unwrap_or(""), case["strict"].as_bool().unwrap_or(true), &mut st) {
            ctx.report(f);
        }
    } else if let Some(c) = HistCase::from_json(case) {
        let known_open = |_: &str| false;
        if let Err(f) = run_history(p, &c, &mut st, &known_open) {
            ctx.report(f);
        }
    }
    ctx.merge(st);
}
