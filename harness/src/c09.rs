//! C09 — merging files keeps each file's content and yields their union in any load order.
use crate::adoc::*;
use crate::engine::*;
use crate::spec::*;
use autosar_data::*;
use autosar_data_specification::ContentMode;
use proptest::prelude::*;
use serde_json::{json, Value};
use std::collections::BTreeSet;

/// file assignment parallel to the element children of an ANode
#[derive(Clone, Debug)]
pub struct Asg {
    pub files: u8,
    pub kids: Vec<Asg>,
}

const KINDS: &[ElementName] = &[
    ElementName::SystemSignal,
    ElementName::ISignal,
    ElementName::Unit,
    ElementName::CompuMethod,
    ElementName::EcucModuleConfigurationValues,
    ElementName::System,
    ElementName::SwBaseType,
    ElementName::ApplicationPrimitiveDataType,
    ElementName::DataConstr,
    ElementName::BswModuleEntry,
    ElementName::SenderReceiverInterface,
    ElementName::ApplicationSwComponentType,
    ElementName::EcuInstance,
    ElementName::ISignalIPdu,
    ElementName::CanCluster,
];

fn named(g: &mut Gen, parent_tid: usize, name: ElementName, item: &str) -> Option<(ANode, usize)> {
    let si = SpecIndex::get();
    let (ct, _) = si.types[parent_tid].etype.find_sub_element(name, 1 << g.vi)?;
    let ctid = si.id_of(ct);
    let mut n = g.make_node(name, ctid, false);
    // replace the generated name
    for c in &mut n.content {
        if let AContent::Elem(e) = c {
            if e.name == ElementName::ShortName {
                e.content = vec![AContent::Text(AVal::Str(item.to_string()))];
            }
        }
    }
    Some((n, ctid))
}

/// ECUC-MODULE-CONFIGURATION-VALUES / CONTAINERS / ECUC-CONTAINER-VALUE with parameter and reference values that are keyed
/// by DEFINITION-REF only (anonymous elements the merge has to match by that key)
fn gen_ecuc(g: &mut Gen, elements_tid: usize, name: &str) -> Option<ANode> {
    let si = SpecIndex::get();
    let (mut m, mtid) = named(g, elements_tid, ElementName::EcucModuleConfigurationValues, name)?;
    let sub = |tid: usize, n: ElementName, vi: usize| -> Option<(ANode, usize)> {
        let (t, _) = si.types[tid].etype.find_sub_element(n, 1 << vi)?;
        Some((ANode::new(n, t), si.id_of(t)))
    };
    let vi = g.vi;
    let text = |tid: usize, n: ElementName, s: &str| -> Option<ANode> {
        let (mut e, _) = sub(tid, n, vi)?;
        e.content.push(AContent::Text(AVal::Str(s.to_string())));
        Some(e)
    };
    let (mut conts, ctid) = sub(mtid, ElementName::Containers, vi)?;
    let (mut c, cvtid) = named(g, ctid, ElementName::EcucContainerValue, "c")?;
    let mut dr = text(cvtid, ElementName::DefinitionRef, "/def/c")?;
    dr.attrs.push((AttributeName::Dest, AVal::Enum(autosar_data::EnumItem::EcucParamConfContainerDef)));
    c.content.push(AContent::Elem(dr));
    let (mut pv, pvtid) = sub(cvtid, ElementName::ParameterValues, vi)?;
    for i in 0..(1 + g.tape.below(3)) {
        let (mut p, ptid) = sub(pvtid, ElementName::EcucNumericalParamValue, vi)?;
        let mut d = text(ptid, ElementName::DefinitionRef, &format!("/def/c/p{i}"))?;
        d.attrs.push((AttributeName::Dest, AVal::Enum(autosar_data::EnumItem::EcucIntegerParamDef)));
        p.content.push(AContent::Elem(d));
        p.content.push(AContent::Elem(text(ptid, ElementName::Value, &format!("{}", i * 3))?));
        pv.content.push(AContent::Elem(p));
    }
    c.content.push(AContent::Elem(pv));
    let (mut rv, rvtid) = sub(cvtid, ElementName::ReferenceValues, vi)?;
    for i in 0..(2 + g.tape.below(3)) {
        let (mut r, rtid) = sub(rvtid, ElementName::EcucReferenceValue, vi)?;
        let mut d = text(rtid, ElementName::DefinitionRef, &format!("/def/c/r{i}"))?;
        d.attrs.push((AttributeName::Dest, AVal::Enum(autosar_data::EnumItem::EcucReferenceDef)));
        r.content.push(AContent::Elem(d));
        let mut v = text(rtid, ElementName::ValueRef, &format!("/p1/t{i}"))?;
        v.attrs.push((AttributeName::Dest, AVal::Enum(autosar_data::EnumItem::SystemSignal)));
        r.content.push(AContent::Elem(v));
        rv.content.push(AContent::Elem(r));
    }
    c.content.push(AContent::Elem(rv));
    conts.content.push(AContent::Elem(c));
    m.content.push(AContent::Elem(conts));
    Some(m)
}

fn gen_package(g: &mut Gen, pkgs_tid: usize, name: &str, depth: usize) -> Option<ANode> {
    let si = SpecIndex::get();
    let (mut pkg, ptid) = named(g, pkgs_tid, ElementName::ArPackage, name)?;
    let nel = g.tape.below(6);
    if nel > 0 {
        let (et, _) = si.types[ptid].etype.find_sub_element(ElementName::Elements, 1 << g.vi)?;
        let etid = si.id_of(et);
        let mut els = ANode::new(ElementName::Elements, et);
        let names = ["a", "a1", "a10", "a2", "b", "x9", "x10", "pkg1", "e1", "e2", "zz"];
        let mut used = BTreeSet::new();
        for _ in 0..nel {
            let kind = KINDS[g.tape.below(KINDS.len())];
            let nm = names[g.tape.below(names.len())];
            if !used.insert(nm) {
                continue;
            }
            if let Some((mut e, tid)) = named(g, etid, kind, nm) {
                let save = g.remaining;
                g.remaining = 6;
                g.fill(tid, &mut e, 2);
                g.remaining = save;
                els.content.push(AContent::Elem(e));
            }
        }
        if g.tape.chance(60) {
            if let Some(e) = gen_ecuc(g, etid, "ecuc") {
                els.content.push(AContent::Elem(e));
            }
        }
        pkg.content.push(AContent::Elem(els));
    }
    if depth < 2 && g.tape.chance(70) {
        let (st, _) = si.types[ptid].etype.find_sub_element(ElementName::ArPackages, 1 << g.vi)?;
        let stid = si.id_of(st);
        let mut sub = ANode::new(ElementName::ArPackages, st);
        let n = 1 + g.tape.below(2);
        for i in 0..n {
            if let Some(p) = gen_package(g, stid, ["s1", "s2", "a"][i % 3], depth + 1) {
                sub.content.push(AContent::Elem(p));
            }
        }
        pkg.content.push(AContent::Elem(sub));
    }
    Some(pkg)
}

pub fn gen_master(tape: &[u32], version: AutosarVersion) -> Option<ADoc> {
    let si = SpecIndex::get();
    let mut t = Tape::new(tape);
    let mut g = Gen::new(version, &mut t, GenOpts { budget: 6, p_optional: 70, p_attr: 40, p_comment: 0, max_depth: 5 });
    let mut root = ANode::new(ElementName::Autosar, autosar_data_specification::ElementType::ROOT);
    let (pt, _) = autosar_data_specification::ElementType::ROOT.find_sub_element(ElementName::ArPackages, 1 << g.vi)?;
    let ptid = si.id_of(pt);
    let mut pkgs = ANode::new(ElementName::ArPackages, pt);
    let n = 1 + g.tape.below(4);
    for i in 0..n {
        if let Some(p) = gen_package(&mut g, ptid, ["p1", "p2", "p10", "q"][i % 4], 0) {
            pkgs.content.push(AContent::Elem(p));
        }
    }
    root.content.push(AContent::Elem(pkgs));
    Some(ADoc { version, standalone: None, root })
}

/// master for the conflict variant: elements with lists of NAMED children below parents that are not splittable in all
/// versions (DATA-ELEMENTS, ARGUMENTS, PORTS, PORT-GROUPS - the last is splittable in the newest versions only)
pub fn gen_conflict_master(tape: &[u32], version: AutosarVersion) -> Option<ADoc> {
    let si = SpecIndex::get();
    let mut t = Tape::new(tape);
    let mut g = Gen::new(version, &mut t, GenOpts { budget: 4, p_optional: 30, p_attr: 20, p_comment: 0, max_depth: 3 });
    let mut root = ANode::new(ElementName::Autosar, autosar_data_specification::ElementType::ROOT);
    let (pt, _) = autosar_data_specification::ElementType::ROOT.find_sub_element(ElementName::ArPackages, 1 << g.vi)?;
    let ptid = si.id_of(pt);
    let mut pkgs = ANode::new(ElementName::ArPackages, pt);
    let (mut pkg, pkid) = named(&mut g, ptid, ElementName::ArPackage, "p1")?;
    let (et, _) = si.types[pkid].etype.find_sub_element(ElementName::Elements, 1 << g.vi)?;
    let etid = si.id_of(et);
    let mut els = ANode::new(ElementName::Elements, et);
    // (element kind, name, [(container, child kind)])
    let shapes: [(ElementName, &str, &[(ElementName, ElementName)]); 3] = [
        (ElementName::SenderReceiverInterface, "i", &[(ElementName::DataElements, ElementName::VariableDataPrototype)]),
        (ElementName::ApplicationSwComponentType, "c", &[(ElementName::Ports, ElementName::PPortPrototype), (ElementName::PortGroups, ElementName::PortGroup)]),
        (ElementName::BswModuleEntry, "b", &[(ElementName::Arguments, ElementName::SwServiceArg)]),
    ];
    for (kind, nm, lists) in shapes {
        let Some((mut e, tid)) = named(&mut g, etid, kind, nm) else { continue };
        for (li, (cont, child)) in lists.iter().enumerate() {
            let Some((ct, _)) = si.types[tid].etype.find_sub_element(*cont, 1 << g.vi) else { continue };
            let ctid = si.id_of(ct);
            let mut c = ANode::new(*cont, ct);
            let n = 2 + g.tape.below(2);
            for i in 0..n {
                if let Some((k, _)) = named(&mut g, ctid, *child, [["x", "y", "z"], ["u", "v", "w"]][li % 2][i]) {
                    c.content.push(AContent::Elem(k));
                }
            }
            if c.children().count() >= 2 {
                e.content.push(AContent::Elem(c));
            }
        }
        els.content.push(AContent::Elem(e));
    }
    pkg.content.push(AContent::Elem(els));
    pkgs.content.push(AContent::Elem(pkg));
    root.content.push(AContent::Elem(pkgs));
    Some(ADoc { version, standalone: None, root })
}

/// assign file sets: children of a splittable parent get a non-empty subset of the parent's files
fn assign(n: &ANode, files: u8, version: &[AutosarVersion], t: &mut Tape, force_full: bool) -> Asg {
    // a parent is split only where the meta-model allows it in the version of EVERY file involved
    let split = version.iter().all(|v| n.etype.splittable_in(*v));
    let mut kids = vec![];
    // children without identity (no item name) of one kind cannot be told apart by any merge: they stay together
    let mut per_name: std::collections::HashMap<ElementName, u8> = std::collections::HashMap::new();
    // the library matches anonymous BSW values by their DEFINITION-REF: a child whose DEFINITION-REF text is unique among its
    // same-kind siblings can be told apart and may get a file set of its own
    let defref = |c: &ANode| -> Option<String> {
        c.children().find(|k| k.name == ElementName::DefinitionRef).and_then(|k| {
            k.content.iter().find_map(|x| if let AContent::Text(AVal::Str(s)) = x { Some(s.clone()) } else { None })
        })
    };
    for c in n.children() {
        let keyed = defref(c).is_some_and(|d| n.children().filter(|k| k.name == c.name && defref(k).as_deref() == Some(d.as_str())).count() == 1);
        let anonymous = c.item_name().is_none() && !keyed;
        if anonymous {
            if let Some(f) = per_name.get(&c.name) {
                kids.push(assign(c, *f, version, t, false));
                continue;
            }
        }
        let f = if split && !force_full && c.name != ElementName::ShortName {
            // non-empty subset of `files`
            let bits: Vec<u8> = (0..8).filter(|b| files & (1 << b) != 0).collect();
            let mut s = 0u8;
            match t.below(4) {
                0 => s = files, // shared by all
                _ => {
                    for b in &bits {
                        if t.chance(128) {
                            s |= 1 << b;
                        }
                    }
                    if s == 0 {
                        s = 1 << bits[t.below(bits.len())];
                    }
                }
            }
            s
        } else {
            files
        };
        if anonymous {
            per_name.insert(c.name, f);
        }
        kids.push(assign(c, f, version, t, false));
    }
    Asg { files, kids }
}

/// the view of file i (children permuted among same-name siblings and inside bags when `perm` is set)
fn view(n: &ANode, a: &Asg, i: usize, perm: Option<&mut SplitMix>) -> ANode {
    let mut out = ANode::new(n.name, n.etype);
    out.attrs = n.attrs.clone();
    out.comment = n.comment.clone();
    let mut k = 0;
    let mut perm = perm;
    for c in &n.content {
        match c {
            AContent::Elem(e) => {
                let ka = &a.kids[k];
                k += 1;
                if ka.files & (1 << i) != 0 {
                    out.content.push(AContent::Elem(view(e, ka, i, perm.as_deref_mut())));
                }
            }
            other => out.content.push(other.clone()),
        }
    }
    if let Some(sm) = perm {
        // only the children of SPLITTABLE parents are ordered differently per file: a non-splittable element is
        // contained completely in every file that has it, and a re-ordered copy of it would be a different element
        let reorderable = n.etype.splittable() != 0 && !n.etype.is_ordered() && matches!(n.etype.content_mode(), ContentMode::Bag | ContentMode::Sequence | ContentMode::Choice);
        if reorderable {
            // permute runs of same-name siblings (always keeps specification order); whole list for bags
            let bag = n.etype.content_mode() == ContentMode::Bag;
            let len = out.content.len();
            for x in (1..len).rev() {
                let y = sm.below(x + 1);
                // only elements with an identity (item name) are re-ordered: anonymous siblings cannot be matched by any merge
                let both_named = matches!((&out.content[x], &out.content[y]), (AContent::Elem(p), AContent::Elem(q)) if p.item_name().is_some() && q.item_name().is_some());
                if !both_named {
                    continue;
                }
                let same = match (&out.content[x], &out.content[y]) {
                    (AContent::Elem(p), AContent::Elem(q)) => p.name == q.name && p.name != ElementName::ShortName,
                    _ => false,
                };
                let contiguous_ok = bag || same && (y..=x).all(|z| matches!((&out.content[z], &out.content[x]), (AContent::Elem(p), AContent::Elem(q)) if p.name == q.name));
                if contiguous_ok && same || bag && matches!((&out.content[x], &out.content[y]), (AContent::Elem(_), AContent::Elem(_))) {
                    out.content.swap(x, y);
                }
            }
        }
    }
    out
}

/// canonical form with file sets: order-insensitive where the specification allows reordering
fn canon_master(n: &ANode, a: &Asg, relaxed: bool) -> String {
    let keep = (n.etype.is_ordered() && !(relaxed && n.etype.splittable() != 0)) || matches!(n.etype.content_mode(), ContentMode::Mixed | ContentMode::Characters);
    let mut k = 0;
    let mut kids: Vec<String> = vec![];
    for c in &n.content {
        match c {
            AContent::Elem(e) => {
                kids.push(canon_master(e, &a.kids[k], relaxed));
                k += 1;
            }
            AContent::Text(v) => kids.push(format!("{:?}", v)),
            AContent::Raw(r) => kids.push(r.clone()),
        }
    }
    if !keep {
        kids.sort();
    }
    let attrs: Vec<String> = if n.name == ElementName::Autosar { vec![] } else { n.attrs.iter().map(|(an, v)| format!("{an}={:?}", v)).collect() };
    format!("<{} {:?} f{:b}>[{}]", n.name, attrs, a.files, kids.join(","))
}

fn canon_model(e: &Element, names: &[String], with_files: bool) -> String {
    canon_model_r(e, names, with_files, false)
}

fn canon_model_r(e: &Element, names: &[String], with_files: bool, relaxed: bool) -> String {
    let et = e.element_type();
    let keep = (et.is_ordered() && !(relaxed && et.splittable() != 0)) || matches!(et.content_mode(), ContentMode::Mixed | ContentMode::Characters);
    let mut kids: Vec<String> = e
        .content()
        .map(|c| match c {
            ElementContent::Element(k) => canon_model_r(&k, names, with_files, relaxed),
            ElementContent::CharacterData(cd) => format!("{:?}", AVal::from_cdata(&cd)),
        })
        .collect();
    if !keep {
        kids.sort();
    }
    let attrs: Vec<String> = if e.element_name() == ElementName::Autosar { vec![] } else { e.attributes().map(|a| format!("{}={:?}", a.attrname, AVal::from_cdata(&a.content))).collect() };
    let mut bits = 0u8;
    if with_files {
        if let Ok((_, set)) = e.file_membership() {
            for f in set {
                if let Some(f) = f.upgrade() {
                    let nm = f.filename().to_string_lossy().to_string();
                    if let Some(i) = names.iter().position(|x| *x == nm) {
                        bits |= 1 << i;
                    }
                }
            }
        }
    }
    format!("<{} {:?} f{:b}>[{}]", e.element_name(), attrs, bits, kids.join(","))
}

fn has_sibling_duplicates(e: &Element) -> Option<String> {
    let mut seen = BTreeSet::new();
    for k in e.sub_elements() {
        if let Some(n) = k.item_name() {
            if !seen.insert((k.element_name().to_string(), n.clone())) {
                let mut kinds: Vec<String> = e.sub_elements().filter(|x| x.is_identifiable()).map(|x| x.element_name().to_string()).collect();
                kinds.sort();
                kinds.dedup();
                let tag = if kinds.len() >= 2 { "" } else { "[ONE-KIND]" };
                return Some(format!("{tag}two <{}> siblings named {n:?} below {}", k.element_name(), e.xml_path()));
            }
        }
    }
    for k in e.sub_elements() {
        if let Some(d) = has_sibling_duplicates(&k) {
            return Some(d);
        }
    }
    None
}

/// per parent path: (child kinds of anonymous children in document order) of the master
use autosar_data_specification::ElementType;
fn master_kinds(n: &ANode, path: &str, out: &mut std::collections::BTreeMap<String, (ElementType, Vec<ElementName>)>) {
    let here = format!("{path}/{}{}", n.name, n.item_name().map(|x| format!("[{x}]")).unwrap_or_default());
    let kinds: Vec<ElementName> = n.children().map(|k| k.name).collect();
    out.entry(here.clone()).or_insert((n.etype, kinds));
    for k in n.children() {
        master_kinds(k, &here, out);
    }
}

/// Recorded finding KF-C09-3: below a parent whose children are NOT in specification order (legal for repeated
/// choices such as documentation blocks), the two-pointer merge imports an anonymous element of a later file as new
/// instead of merging it with the existing one. Returns a description if the merged model shows exactly that.
fn anonymous_duplicate_out_of_order(master: &ANode, merged: &Element) -> Option<String> {
    let mut mk = std::collections::BTreeMap::new();
    master_kinds(master, "", &mut mk);
    fn walk(e: &Element, path: &str, mk: &std::collections::BTreeMap<String, (ElementType, Vec<ElementName>)>) -> Option<String> {
        let here = format!("{path}/{}{}", e.element_name(), e.item_name().map(|x| format!("[{x}]")).unwrap_or_default());
        if let Some((et, kinds)) = mk.get(&here) {
            let got: Vec<Element> = e.sub_elements().collect();
            for k in got.iter().filter(|k| !k.is_identifiable()) {
                let name = k.element_name();
                let n_got = got.iter().filter(|x| x.element_name() == name).count();
                let n_master = kinds.iter().filter(|x| **x == name).count();
                if n_got > n_master {
                    // are the master's children out of specification order?
                    let idx: Vec<Vec<usize>> = kinds.iter().filter_map(|n| et.find_sub_element(*n, u32::MAX).map(|x| x.1)).collect();
                    if idx.windows(2).any(|w| w[0] > w[1]) {
                        return Some(format!("{here}: {n_got} <{name}> children after the merge, the master has {n_master}; the master's children {:?} are not in specification order", kinds.iter().map(|x| x.to_string()).collect::<Vec<_>>()));
                    }
                }
            }
        }
        for k in e.sub_elements() {
            if let Some(d) = walk(&k, &here, mk) {
                return Some(d);
            }
        }
        None
    }
    walk(merged, "", &mk)
}

#[derive(Clone, Debug)]
pub struct MergeCase {
    pub vi: usize,
    pub tape: Vec<u32>,
    pub split: Vec<u32>,
    pub k: usize,
    pub permute: bool,
    pub perm_seed: u64,
    /// per file: 0 = the master's version, n = version index (vi + n) mod 21
    pub vers: Vec<u8>,
    /// conflict variant: two files that diverge below a parent that is not splittable
    pub conflict: bool,
}

impl MergeCase {
    fn to_json(&self) -> Value {
        json!({"kind":"merge","vi":self.vi,"tape":self.tape,"split":self.split,"k":self.k,"permute":self.permute,"perm_seed":self.perm_seed,"vers":self.vers,"conflict":self.conflict})
    }
    fn from_json(v: &Value) -> Option<MergeCase> {
        let arr = |k: &str| -> Vec<u32> { v[k].as_array().map(|a| a.iter().map(|x| x.as_u64().unwrap_or(0) as u32).collect()).unwrap_or_default() };
        Some(MergeCase { vi: v["vi"].as_u64()? as usize, tape: arr("tape"), split: arr("split"), k: v["k"].as_u64()? as usize, permute: v["permute"].as_bool()?, perm_seed: v["perm_seed"].as_u64().unwrap_or(0), vers: v["vers"].as_array().map(|a| a.iter().map(|x| x.as_u64().unwrap_or(0) as u8).collect()).unwrap_or_default(), conflict: v["conflict"].as_bool().unwrap_or(false) })
    }
}

fn permutations(k: usize) -> Vec<Vec<usize>> {
    fn rec(cur: &mut Vec<usize>, used: &mut Vec<bool>, k: usize, out: &mut Vec<Vec<usize>>) {
        if cur.len() == k {
            out.push(cur.clone());
            return;
        }
        for i in 0..k {
            if !used[i] {
                used[i] = true;
                cur.push(i);
                rec(cur, used, k, out);
                cur.pop();
                used[i] = false;
            }
        }
    }
    let mut out = vec![];
    rec(&mut vec![], &mut vec![false; k], k, &mut out);
    out
}

pub fn run_case(c: &MergeCase, st: &mut Stats) -> Result<(), Failure> {
    let version = versions()[c.vi];
    let Some(master) = gen_master(&c.tape, version) else { return Ok(()) };
    let k = c.k.clamp(2, 4);
    let all: u8 = (1u8 << k) - 1;
    if c.conflict {
        // half of the conflict cases on a master built for the purpose
        let m2 = if c.perm_seed % 2 == 0 { gen_conflict_master(&c.tape, version) } else { None };
        return run_conflict_case(c, m2.as_ref().unwrap_or(&master), st);
    }
    let mut t = Tape::new(&c.split);
    // versions of the files (a view that is not valid in its version falls back to the master's version below)
    let mut fvers: Vec<AutosarVersion> = (0..k)
        .map(|i| match c.vers.get(i).copied().unwrap_or(0) as usize {
            0 => version,
            o => versions()[(c.vi + o) % NVER],
        })
        .collect();
    let mut all_vs = fvers.clone();
    all_vs.push(version);
    let asg = assign(&master.root, all, &all_vs, &mut t, false);
    st.eval();
    let names: Vec<String> = (0..k).map(|i| format!("file{i}.arxml")).collect();
    // views and their texts
    let mut sm = SplitMix(c.perm_seed);
    let mut texts: Vec<Vec<u8>> = vec![];
    let mut shared = false;
    let mut exclusive = false;
    fn stats(a: &Asg, all: u8, shared: &mut bool, exclusive: &mut bool) {
        if a.files.count_ones() >= 2 {
            *shared = true;
        }
        if a.files.count_ones() == 1 && all.count_ones() > 1 {
            *exclusive = true;
        }
        for k in &a.kids {
            stats(k, all, shared, exclusive);
        }
    }
    for kid in &asg.kids {
        stats(kid, all, &mut shared, &mut exclusive);
    }
    for i in 0..k {
        let v = view(&master.root, &asg, i, if c.permute { Some(&mut sm) } else { None });
        let d = ADoc { version: fvers[i], standalone: None, root: v.clone() };
        let (mut bytes, _) = render(&d, &[], true);
        if fvers[i] != version && AutosarModel::new().load_buffer(&bytes, "probe.arxml", true).is_err() {
            // this view holds something that does not exist in the chosen version: it keeps the master's version
            fvers[i] = version;
            bytes = render(&ADoc { version, standalone: None, root: v }, &[], true).0;
        }
        texts.push(bytes);
    }
    {
        let mut d: Vec<String> = fvers.iter().map(|v| format!("{v:?}")).collect();
        d.sort();
        d.dedup();
        st.class(if d.len() > 1 { "files-of-different-versions" } else { "files-of-one-version" });
    }
    let show = || {
        let mut s = String::new();
        for (i, t) in texts.iter().enumerate() {
            s.push_str(&format!("--- file{i}.arxml ---\n{}\n", String::from_utf8_lossy(&t[..t.len().min(1800)])));
        }
        s
    };
    let fail = |sig: &str, msg: String| Failure::new(sig, format!("{msg}\n{}", show()), c.to_json());
    // each view loads on its own (else the generator is wrong)
    let mut own_canon = vec![];
    for (i, tx) in texts.iter().enumerate() {
        let m = AutosarModel::new();
        match m.load_buffer(tx, &names[i], true) {
            Ok(_) => own_canon.push(canon_model(&m.root_element(), &names, false)),
            Err(e) => {
                st.class("generator_rejected");
                return Err(fail("generator-rejected", format!("view {i} is rejected on its own: {e}")));
            }
        }
    }
    let expected = canon_master(&master.root, &asg, false);
    let expected_relaxed = canon_master(&master.root, &asg, true);
    let orders = if k <= 3 { permutations(k) } else { permutations(k).into_iter().step_by(4).collect() };
    let mut first: Option<String> = None;
    for order in &orders {
        let m = AutosarModel::new();
        let mut files: Vec<Option<ArxmlFile>> = vec![None; k];
        for i in order {
            match crate::engine::no_panic(|| m.load_buffer(&texts[*i], &names[*i], true)) {
                Ok(Ok((f, _))) => files[*i] = Some(f),
                Ok(Err(e)) => return Err(fail(&format!("merge:rejected:{}", crate::hist::err_variant(&e)), format!("loading the consistent views in order {:?} is rejected at file{i}: {e}", order))),
                Err(p) => return Err(fail("merge:panic", format!("load order {:?}: panic {p}", order))),
            }
        }
        if let Some(d) = has_sibling_duplicates(&m.root_element()) {
            // KF-C09-1 needs named siblings of different kinds under one parent; duplicates among siblings of one kind are not it
            let sig = if d.starts_with("[ONE-KIND]") { "merge:duplicate-imported:named-siblings-of-one-kind" } else { "merge:duplicate-of-existing-identifiable-imported" };
            return Err(fail(sig, format!("load order {:?}: {d}", order)));
        }
        let got = canon_model(&m.root_element(), &names, true);
        if got != expected {
            if canon_model_r(&m.root_element(), &names, true, true) == expected_relaxed {
                return Err(fail("merge:order-inside-ordered-splittable-element-not-preserved", format!("load order {:?}: the merged model has all elements and file sets, but the order of the children of an ORDERED splittable element differs from the order in the files", order)));
            }
            if let Some(d) = anonymous_duplicate_out_of_order(&master.root, &m.root_element()) {
                return Err(fail("merge:anonymous-element-duplicated:parent-content-not-in-specification-order", format!("load order {:?}: {d}", order)));
            }
            let without = canon_model(&m.root_element(), &names, false);
            let exp_without = {
                // strip file annotations for classification
                let re = regex::Regex::new(r" f[01]+>").unwrap();
                (re.replace_all(&expected, " f0>").to_string(), re.replace_all(&without, " f0>").to_string())
            };
            let sig = if exp_without.0 != exp_without.1 { "merge:content-differs-from-master" } else { "merge:membership-differs-from-assignment" };
            return Err(fail(sig, format!("load order {:?}: the merged model differs from the master\n expected {}\n got      {}", order, &expected[..expected.len().min(1500)], &got[..got.len().min(1500)])));
        }
        // each file serialized from the merged model has the content it has on its own
        for i in 0..k {
            let f = files[i].as_ref().unwrap();
            match f.serialize() {
                Ok(text) => {
                    let m2 = AutosarModel::new();
                    match m2.load_buffer(text.as_bytes(), &names[i], true) {
                        Ok(_) => {
                            let cn = canon_model(&m2.root_element(), &names, false);
                            if cn != own_canon[i] {
                                let own_relaxed = {
                                    let mo = AutosarModel::new();
                                    let _ = mo.load_buffer(&texts[i], &names[i], true);
                                    canon_model_r(&mo.root_element(), &names, false, true)
                                };
                                if canon_model_r(&m2.root_element(), &names, false, true) == own_relaxed {
                                    return Err(fail("merge:order-inside-ordered-splittable-element-not-preserved", format!("load order {:?}: file{i} written from the merged model has its ordered children in another order than the file itself", order)));
                                }
                                return Err(fail("merge:file-content-differs", format!("load order {:?}: file{i} serialized from the merged model differs from the file loaded on its own", order)));
                            }
                        }
                        Err(e) => return Err(fail("merge:file-text-rejected", format!("load order {:?}: text of file{i} written from the merged model is rejected: {e}", order))),
                    }
                }
                Err(e) => return Err(fail("merge:serialize-error", format!("file{i}: {e}"))),
            }
        }
        match &first {
            None => first = Some(got),
            Some(f) if *f != got => return Err(fail("merge:order-dependent", format!("load order {:?} gives a different result than the first order", order))),
            _ => {}
        }
    }
    st.class(&format!("files:{k}{}", if c.permute { ":permuted" } else { "" }));
    if shared && exclusive {
        st.nontrivial(mix(fnv(expected.as_bytes()), c.perm_seed * c.permute as u64));
        if st.want_sample() && texts.iter().map(|t| t.len()).sum::<usize>() < 2500 {
            st.sample(json!({"files": texts.iter().map(|t| String::from_utf8_lossy(t).to_string()).collect::<Vec<_>>(), "load_orders_tried": orders.len()}));
        }
    }
    Ok(())
}

/// "conflicting files must be rejected": two complete views of the master (file versions possibly different) are made to
/// diverge below a parent that is NOT splittable in both versions - one file keeps only the named child x, the other only its
/// sibling y of the same kind. Both load orders must reject the second file; in any case both orders must give the same verdict.
fn run_conflict_case(c: &MergeCase, master: &ADoc, st: &mut Stats) -> Result<(), Failure> {
    let version = master.version;
    st.eval();
    let fv: Vec<AutosarVersion> = (0..2)
        .map(|i| match c.vers.get(i).copied().unwrap_or(0) as usize {
            0 => version,
            o => versions()[(c.vi + o) % NVER],
        })
        .collect();
    // candidate parents: (path of child indices) with two named children of one kind, not splittable in at least one version
    fn walk(n: &ANode, path: &mut Vec<usize>, fv: &[AutosarVersion], out: &mut Vec<(Vec<usize>, usize, usize, bool, bool)>) {
        let kids: Vec<(usize, &ANode)> = n.content.iter().enumerate().filter_map(|(i, c)| if let AContent::Elem(e) = c { Some((i, e)) } else { None }).collect();
        let nonsplit_some = fv.iter().any(|v| !n.etype.splittable_in(*v));
        let nonsplit_all = fv.iter().all(|v| !n.etype.splittable_in(*v));
        if nonsplit_some {
            for a in 0..kids.len() {
                for b in a + 1..kids.len() {
                    if kids[a].1.name == kids[b].1.name && kids[a].1.item_name().is_some() && kids[b].1.item_name().is_some() {
                        // "must be rejected" is only claimed for a parent whose element children are all of this one kind
                        // (PORTS, DATA-ELEMENTS, ARGUMENTS ...): with siblings of other kinds in between, the walk reaches the
                        // two children through its different-kind branch, which is the recorded gap KF-C09-4
                        let pure = kids.iter().all(|k| k.1.name == kids[a].1.name);
                        out.push((path.clone(), kids[a].0, kids[b].0, nonsplit_all, pure));
                    } else if kids[a].1.name != kids[b].1.name && kids[a].1.name != ElementName::ShortName && kids[b].1.name != ElementName::ShortName && out.len() % 3 == 0 {
                        // children of DIFFERENT kinds: the library accepts such files (it cannot tell a split from a conflict there);
                        // only "no panic" and "the same result in both orders" are claimed (flag false)
                        out.push((path.clone(), kids[a].0, kids[b].0, nonsplit_all, false));
                    }
                }
            }
        }
        for (i, k) in kids {
            path.push(i);
            walk(k, path, fv, out);
            path.pop();
        }
    }
    let mut cands = vec![];
    walk(&master.root, &mut vec![], &fv, &mut cands);
    if cands.is_empty() {
        st.class("conflict:no-candidate-parent");
        return Ok(());
    }
    let (path, xa, xb, nonsplit_all, same_kind) = cands[(c.perm_seed % cands.len() as u64) as usize].clone();
    fn without(n: &ANode, path: &[usize], drop: usize) -> ANode {
        let mut out = n.clone();
        if path.is_empty() {
            out.content.remove(drop);
        } else if let AContent::Elem(e) = &n.content[path[0]] {
            out.content[path[0]] = AContent::Elem(without(e, &path[1..], drop));
        }
        out
    }
    let mut views = [without(&master.root, &path, xb), without(&master.root, &path, xa)];
    // give each file a package of its own where the master has packages to spare (one that is not on the path to the divergence):
    // the first such package stays in file1 only, the last one in file0 only - a rejected file then carries content that the merge
    // imports before / after it reaches the conflict
    let mut exclusive_pkgs = 0;
    if let Some(pi) = master.root.content.iter().position(|c| matches!(c, AContent::Elem(e) if e.name == ElementName::ArPackages)) {
        if let AContent::Elem(pk) = &master.root.content[pi] {
            let on_path = if path.first() == Some(&pi) { path.get(1).copied() } else { None };
            let spare: Vec<usize> = (0..pk.content.len()).filter(|j| Some(*j) != on_path && matches!(&pk.content[*j], AContent::Elem(e) if e.name == ElementName::ArPackage)).collect();
            if spare.len() >= 2 && path.first() == Some(&pi) && path.len() >= 2 {
                let (first, last) = (spare[0], spare[spare.len() - 1]);
                // remove the higher index only (the divergence path is addressed by index: nothing in front of it may shift)
                if first > path[1] {
                    if let AContent::Elem(v) = &mut views[0].content[pi] {
                        v.content.remove(first);
                        exclusive_pkgs += 1;
                    }
                }
                if last > path[1] && last != first {
                    if let AContent::Elem(v) = &mut views[1].content[pi] {
                        v.content.remove(last);
                        exclusive_pkgs += 1;
                    }
                }
            }
        }
    }
    if exclusive_pkgs > 0 {
        st.class("conflict:files-with-packages-of-their-own");
    }
    let describe = {
        let mut n = &master.root;
        let mut names = vec![];
        for i in &path {
            if let AContent::Elem(e) = &n.content[*i] {
                names.push(format!("{}{}", e.name, e.item_name().map(|x| format!("[{x}]")).unwrap_or_default()));
                n = e;
            }
        }
        let kid = |i: usize| if let AContent::Elem(e) = &n.content[i] { format!("<{}>{}", e.name, e.item_name().map(|x| format!(" {x}")).unwrap_or_default()) } else { String::new() };
        format!("diverging below /{} (file0 keeps {}, file1 keeps {}; same kind: {same_kind}; parent not splittable in both versions: {nonsplit_all})", names.join("/"), kid(xa), kid(xb))
    };
    let names = ["file0.arxml".to_string(), "file1.arxml".to_string()];
    let mut texts = vec![];
    for i in 0..2 {
        let (bytes, _) = render(&ADoc { version: fv[i], standalone: None, root: views[i].clone() }, &[], true);
        if let Err(e) = AutosarModel::new().load_buffer(&bytes, "probe.arxml", true) {
            st.class("conflict:view-not-valid-on-its-own");
            if std::env::var("VERIF_DEBUG_C09").is_ok() {
                eprintln!("C09DEBUG {e}");
            }
            return Ok(());
        }
        texts.push(bytes);
    }
    st.class(if fv[0] != fv[1] { "conflict:files-of-different-versions" } else { "conflict:files-of-one-version" });
    st.nontrivial(fnv(&texts[0]) ^ fnv(&texts[1]).rotate_left(7));
    let show = || format!("--- file0.arxml ({:?}) ---\n{}\n--- file1.arxml ({:?}) ---\n{}", fv[0], String::from_utf8_lossy(&texts[0][..texts[0].len().min(1800)]), fv[1], String::from_utf8_lossy(&texts[1][..texts[1].len().min(1800)]));
    let fail = |sig: &str, msg: String| Failure::new(sig, format!("{msg}\n{describe}\n{}", show()), c.to_json());
    let mut verdicts: Vec<Result<String, String>> = vec![];
    for order in [[0usize, 1], [1, 0]] {
        let m = AutosarModel::new();
        let mut verdict = Ok(String::new());
        for i in order {
            let n_before = m.elements_dfs().count();
            match crate::engine::no_panic(|| m.load_buffer(&texts[i], &names[i], true)) {
                Ok(Ok(_)) => {}
                Ok(Err(e)) => {
                    // the model must still be the union of the ACCEPTED files: nothing of the rejected file stays in the tree
                    let n_after = m.elements_dfs().count();
                    if n_after != n_before {
                        return Err(fail("merge:rejected-file-left-elements", format!("load order {:?}: {} is rejected ({e}) but the model has {n_after} elements afterwards, {n_before} before", order, names[i])));
                    }
                    verdict = Err(crate::hist::err_variant(&e));
                    break;
                }
                Err(p) => return Err(fail(&format!("merge:panic:{}", panic_site(&p)), format!("load order {:?}: panic {p}", order))),
            }
        }
        if verdict.is_ok() {
            verdict = Ok(canon_model(&m.root_element(), &names.to_vec(), true));
        }
        verdicts.push(verdict);
    }
    match (&verdicts[0], &verdicts[1]) {
        (Ok(a), Ok(b)) => {
            if nonsplit_all && same_kind {
                return Err(fail("merge:conflict-accepted", "both load orders accept two files that diverge (different named children of one kind) below a parent that is not splittable in either file's version".into()));
            }
            if nonsplit_all && !same_kind {
                // recorded finding KF-C09-4: the merge cannot tell a conflict from a split when the diverging children are of
                // different kinds (the check is commented out in merge_element); what the merged model looks like then
                // depends on the load order
                return Err(fail("merge:conflict-of-different-kinds-accepted", format!("both load orders accept two files that diverge (children of different kinds) below a parent that is not splittable in either file's version; merged models {}", if a == b { "equal" } else { "differ by load order" })));
            }
            if a != b && same_kind {
                return Err(fail("merge:order-dependent-result", "both load orders accept the diverging files but the merged models differ".into()));
            }
            st.class("conflict:accepted-by-both-orders(parent splittable in one of the versions)");
        }
        (Err(_), Err(_)) => st.class("conflict:rejected-by-both-orders"),
        (a, b) if !same_kind => {
            // KF-C09-4 as well: a conflict between children of different kinds is accepted in one of the two orders
            return Err(fail("merge:conflict-of-different-kinds-accepted", format!("files that diverge with children of different kinds: order [0,1] {}, order [1,0] {}", if a.is_ok() { "accepted" } else { "rejected" }, if b.is_ok() { "accepted" } else { "rejected" })));
        }
        (a, b) => {
            return Err(fail("merge:verdict-depends-on-load-order", format!("order [0,1]: {}; order [1,0]: {}", if a.is_ok() { "accepted".to_string() } else { format!("rejected ({})", a.clone().unwrap_err()) }, if b.is_ok() { "accepted".to_string() } else { format!("rejected ({})", b.clone().unwrap_err()) })));
        }
    }
    Ok(())
}

pub fn run(ctx: &Ctx) {
    ctx.set_rule(
        "A master document (nested packages, ELEMENTS with 15 element kinds and specification-derived content, sub packages) is distributed over 2-4 files: every child of a parent that the meta-model marks splittable in the version gets a non-empty subset of its parent's files, other children follow their parent; optionally the siblings are ordered differently in every file. All k! load orders (k <= 3; 6 of 24 for k = 4) are executed. \
         Oracle: each merged model equals the master as a tree with multiset children at reorderable parents and with the assigned file set on every element; every file serialized from the merged model equals (same tree equality) the file loaded on its own; all load orders agree; a rejected merge is a violation. Non-trivial: an element shared by >= 2 files and an element exclusive to one file; distinct by master + assignment.",
    );
    ctx.assume("views of one master are consistent by construction; sibling order inside a file is only changed where the specification allows reordering");
    let cases = ctx.tier.pick(20_000u64, 300_000u64);
    let strat = (0..NVER, proptest::collection::vec(any::<u32>(), 0..300), proptest::collection::vec(any::<u32>(), 0..120), 2usize..5, any::<bool>(), any::<u64>(), prop_oneof![2 => Just(vec![]), 2 => proptest::collection::vec(0u8..21, 1..5)], 0u8..6);
    run_prop(ctx, "merge", cases, strat, |(vi, tape, split, k, permute, ps, vers, conflict), st| {
        // most cases on recent versions (element kinds of the palette exist there)
        let vi = if *vi < 6 { NVER - 1 - *vi } else { *vi };
        let c = MergeCase { vi, tape: tape.clone(), split: split.clone(), k: *k, permute: *permute, perm_seed: *ps, vers: vers.clone(), conflict: *conflict == 0 };
        match run_case(&c, st) {
            Ok(()) => Outcome::Pass,
            Err(f) => Outcome::Fail(f),
        }
    });
}

pub fn replay_unused() {}

pub fn replay(ctx: &Ctx, case: &Value) {
    let mut st = Stats::new();
    if let Some(c) = MergeCase::from_json(case) {
        if let Err(f) = run_case(&c, &mut st) {
            ctx.report(f);
        }
    }
    ctx.merge(st);
}
