//! Byte-level input generators shared by C02 and C08.
#![allow(dead_code)]

use crate::adoc::*;
use crate::c01::DocCase;
use crate::engine::*;
use crate::spec::*;
use autosar_data::AutosarVersion;
use proptest::prelude::*;

pub const TOKEN_ALPHABET: [u8; 16] = [b'<', b'>', b'?', b'!', b'-', b'/', b'=', b'"', b'\'', b' ', b'\n', b'x', b'&', b';', b'A', 0xFF];

pub const XML_HDR: &str = "<?xml version=\"1.0\" encoding=\"utf-8\"?>\n";

pub fn autosar_open(v: AutosarVersion) -> String {
    format!("<AUTOSAR xsi:schemaLocation=\"http://autosar.org/schema/r4.0 {}\" xmlns=\"http://autosar.org/schema/r4.0\" xmlns:xsi=\"http://www.w3.org/2001/XMLSchema-instance\">", v.filename())
}

/// (name, prefix, suffix) of the contexts a short string is placed in
pub fn contexts() -> Vec<(&'static str, Vec<u8>, Vec<u8>)> {
    let v = AutosarVersion::Autosar_00050;
    let open = autosar_open(v);
    let c = |name: &'static str, pre: String, suf: &str| (name, pre.into_bytes(), suf.as_bytes().to_vec());
    vec![
        c("start", String::new(), ""),
        c("after-xml-header", XML_HDR.to_string(), ""),
        c("after-root-open", format!("{XML_HDR}{open}"), ""),
        c("attribute-text", format!("{XML_HDR}{open}<AR-PACKAGES><AR-PACKAGE "), "><SHORT-NAME>P</SHORT-NAME></AR-PACKAGE></AR-PACKAGES></AUTOSAR>"),
        c("attribute-value", format!("{XML_HDR}{open}<AR-PACKAGES><AR-PACKAGE UUID=\""), "\"><SHORT-NAME>P</SHORT-NAME></AR-PACKAGE></AR-PACKAGES></AUTOSAR>"),
        c("short-name-text", format!("{XML_HDR}{open}<AR-PACKAGES><AR-PACKAGE><SHORT-NAME>"), "</SHORT-NAME></AR-PACKAGE></AR-PACKAGES></AUTOSAR>"),
        c("string-text", format!("{XML_HDR}{open}<AR-PACKAGES><AR-PACKAGE><SHORT-NAME>P</SHORT-NAME><DESC><L-2 L=\"EN\">"), "</L-2></DESC></AR-PACKAGE></AR-PACKAGES></AUTOSAR>"),
        c("xml-header-attrs", "<?xml ".to_string(), "?>\n"),
        c("root-attrs", format!("{XML_HDR}<AUTOSAR "), ">\n</AUTOSAR>"),
    ]
}

/// exhaustive strings of length 0..=maxlen over the token alphabet in every context; work is
/// split by (context, first symbol)
pub fn exhaustive_short<F>(ctx: &Ctx, maxlen: usize, f: F)
where
    F: Fn(&str, &[u8], &mut Stats) + Sync,
{
    let cx = contexts();
    let mut work: Vec<(usize, Option<u8>)> = vec![];
    for ci in 0..cx.len() {
        work.push((ci, None));
        for a in TOKEN_ALPHABET {
            work.push((ci, Some(a)));
        }
    }
    par_items(ctx, &work, |(ci, first), st| {
        let (name, pre, suf) = &cx[*ci];
        let mut buf: Vec<u8> = Vec::with_capacity(pre.len() + suf.len() + maxlen);
        let emit = |mid: &[u8], buf: &mut Vec<u8>, st: &mut Stats| {
            buf.clear();
            buf.extend_from_slice(pre);
            buf.extend_from_slice(mid);
            buf.extend_from_slice(suf);
            f(name, buf, st);
        };
        match first {
            None => emit(&[], &mut buf, st),
            Some(a) => {
                // odometer over the remaining positions
                for len in 1..=maxlen {
                    let mut idx = vec![0usize; len - 1];
                    let mut mid = vec![*a; len];
                    loop {
                        for (k, i) in idx.iter().enumerate() {
                            mid[k + 1] = TOKEN_ALPHABET[*i];
                        }
                        emit(&mid, &mut buf, st);
                        // increment
                        let mut k = 0;
                        loop {
                            if k == idx.len() {
                                break;
                            }
                            idx[k] += 1;
                            if idx[k] < TOKEN_ALPHABET.len() {
                                break;
                            }
                            idx[k] = 0;
                            k += 1;
                        }
                        if k == idx.len() {
                            break;
                        }
                    }
                }
            }
        }
    });
}

pub const FRAGMENTS: &[&[u8]] = &[
    b"&", b"&#", b"&#x;", b"&#;", b"&bogus;", b"&amp", b"&#x110000;", b"&#xD800;", b"<", b">", b"<?", b"?>", b"<?>", b"<!--", b"-->", b"<!-->", b"<?xml version=?>",
    b"<?xml version=\"1.0\" encoding=\"utf-8\"?>", b"\x00", b"\xff", b"\xc3", b"]]>", b"<![CDATA[x]]>", b"=", b"\"", b"'", b" ", b"\n", b"/", b"</", b"/>", b"<>", b"< >", b"<A>", b"</A>",
    b"<SHORT-NAME>", b"</SHORT-NAME>", b"<AR-PACKAGE>", b"</AR-PACKAGE>", b"UUID=\" \"", b"UUID=", b"T=''", b"\xef\xbb\xbf",
];

#[derive(Clone, Debug)]
pub struct MutOp {
    pub kind: u8,
    pub a: u32,
    pub b: u32,
    pub c: u32,
}

pub fn mutop_strategy() -> impl Strategy<Value = MutOp> {
    (0u8..12, any::<u32>(), any::<u32>(), any::<u32>()).prop_map(|(kind, a, b, c)| MutOp { kind, a, b, c })
}

fn token_positions(b: &[u8]) -> Vec<usize> {
    let mut v: Vec<usize> = b.iter().enumerate().filter(|(_, c)| matches!(**c, b'<' | b'>' | b'"' | b'\'' | b'=' | b'&' | b';' | b' ' | b'/' | b'\n')).map(|(i, _)| i).collect();
    v.push(b.len());
    v
}

fn pick(n: usize, r: u32) -> usize {
    if n == 0 {
        0
    } else {
        ((r as u64 * n as u64) >> 32) as usize
    }
}

pub fn apply_mutation(bytes: &mut Vec<u8>, op: &MutOp) {
    if bytes.is_empty() {
        return;
    }
    let toks = token_positions(bytes);
    let p1 = toks[pick(toks.len(), op.a)];
    let p2 = toks[pick(toks.len(), op.b)];
    let (lo, hi) = (p1.min(p2), p1.max(p2));
    match op.kind {
        0 => bytes.truncate(pick(bytes.len() + 1, op.a)),
        1 => {
            bytes.drain(lo..hi);
        }
        2 => {
            let seg: Vec<u8> = bytes[lo..hi].to_vec();
            let at = toks[pick(toks.len(), op.c)];
            bytes.splice(at..at, seg);
        }
        3 => {
            // swap the token-delimited ranges starting at lo and hi (same length heuristic)
            let len = (hi - lo).min(bytes.len() - hi);
            for k in 0..len {
                bytes.swap(lo + k, hi + k);
            }
        }
        4 => {
            // flip a quote
            let qs: Vec<usize> = bytes.iter().enumerate().filter(|(_, c)| **c == b'"' || **c == b'\'').map(|(i, _)| i).collect();
            if !qs.is_empty() {
                let i = qs[pick(qs.len(), op.a)];
                bytes[i] = match op.c % 3 {
                    0 => b'\'',
                    1 => b'"',
                    _ => b' ',
                };
            }
        }
        5 => {
            // blank / empty a quoted value
            let qs: Vec<usize> = bytes.iter().enumerate().filter(|(_, c)| **c == b'"').map(|(i, _)| i).collect();
            if qs.len() >= 2 {
                let k = pick(qs.len() - 1, op.a);
                let (s, e) = (qs[k] + 1, qs[k + 1]);
                let rep: &[u8] = match op.c % 4 {
                    0 => b"",
                    1 => b" ",
                    2 => b"  \n ",
                    _ => b"\t",
                };
                bytes.splice(s..e, rep.iter().copied());
            }
        }
        6 | 7 => {
            let frag = FRAGMENTS[pick(FRAGMENTS.len(), op.c)];
            let at = if op.kind == 6 { p1 } else { pick(bytes.len() + 1, op.a) };
            bytes.splice(at..at, frag.iter().copied());
        }
        8 => {
            let i = pick(bytes.len(), op.a);
            bytes.remove(i);
        }
        9 => {
            let i = pick(bytes.len(), op.a);
            bytes[i] = (op.c & 0xff) as u8;
        }
        10 => {
            // blank the text between a '>' and the next '<'
            let gts: Vec<usize> = bytes.iter().enumerate().filter(|(_, c)| **c == b'>').map(|(i, _)| i).collect();
            if !gts.is_empty() {
                let s = gts[pick(gts.len(), op.a)] + 1;
                let e = bytes[s..].iter().position(|c| *c == b'<').map(|p| s + p).unwrap_or(bytes.len());
                let rep: &[u8] = if op.c % 2 == 0 { b"" } else { b" " };
                bytes.splice(s..e, rep.iter().copied());
            }
        }
        _ => {
            // replace a tag name by another known / unknown one
            let lts: Vec<usize> = bytes.iter().enumerate().filter(|(_, c)| **c == b'<').map(|(i, _)| i).collect();
            if !lts.is_empty() {
                let s = lts[pick(lts.len(), op.a)] + 1;
                let e = bytes[s..].iter().position(|c| matches!(*c, b'>' | b' ' | b'/' | b'\n' | b'\t')).map(|p| s + p).unwrap_or(bytes.len());
                const NAMES: &[&[u8]] = &[b"SHORT-NAME", b"AR-PACKAGE", b"ELEMENTS", b"BOGUS", b"short-name", b"", b"L-2", b"AUTOSAR", b"?xml", b"!--"];
                let rep = NAMES[pick(NAMES.len(), op.c)];
                bytes.splice(s..e, rep.iter().copied());
            }
        }
    }
}

/// a strategy for (document parameters, mutations): the document is rendered and then mutated
pub fn mutated_doc_strategy() -> impl Strategy<Value = (usize, u32, Vec<u32>, Vec<u32>, Vec<MutOp>)> {
    (0..NVER, any::<u32>(), proptest::collection::vec(any::<u32>(), 0..80), proptest::collection::vec(any::<u32>(), 0..120), proptest::collection::vec(mutop_strategy(), 1..4))
}

pub fn build_mutated(reach: &[Vec<usize>], v: &(usize, u32, Vec<u32>, Vec<u32>, Vec<MutOp>)) -> Option<Vec<u8>> {
    let (vi, tsel, tape, style, ops) = v;
    let r = &reach[*vi];
    let target = r[((*tsel as u64 * r.len() as u64) >> 32) as usize];
    let case = DocCase { vi: *vi, target, tape: tape.clone(), style: style.clone(), budget: 10, plain: style.len() < 8 };
    let doc = case.build()?;
    let (mut bytes, _) = render(&doc, &case.style, case.plain);
    for op in ops {
        apply_mutation(&mut bytes, op);
    }
    Some(bytes)
}

/// small plain documents for the truncate-at-every-offset sweep
pub fn small_docs(ctx: &Ctx, n: usize) -> Vec<Vec<u8>> {
    let mut out = vec![];
    let mut sm = SplitMix(ctx.seed_for("small-docs"));
    let reach: Vec<Vec<usize>> = (0..NVER).map(crate::c01::reachable).collect();
    let mut guard = 0;
    while out.len() < n && guard < n * 20 {
        guard += 1;
        let vi = sm.below(NVER);
        let target = reach[vi][sm.below(reach[vi].len())];
        let case = DocCase { vi, target, tape: (0..40).map(|_| sm.next() as u32).collect(), style: (0..120).map(|_| sm.next() as u32).collect(), budget: 6, plain: sm.below(2) == 0 };
        if let Some(doc) = case.build() {
            let (bytes, _) = render(&doc, &case.style, case.plain);
            if bytes.len() < 1500 {
                out.push(bytes);
            }
        }
    }
    out
}

/// documents whose prologue or root tag is LONG (sizes around powers of two and a few large ones): padding by a comment,
/// by white space or by a processing instruction before the root element, by white space inside the root tag, and by a
/// long first comment inside the root - any fixed-size window a header probe might use is straddled
pub fn long_prologue_docs() -> Vec<Vec<u8>> {
    let v = AutosarVersion::Autosar_00050;
    let open = autosar_open(v);
    let body = "<AR-PACKAGES><AR-PACKAGE><SHORT-NAME>P</SHORT-NAME></AR-PACKAGE></AR-PACKAGES></AUTOSAR>";
    let mut sizes: Vec<usize> = vec![0, 1, 100, 1000, 20_000, 70_000];
    for p in [9usize, 10, 11, 12, 13, 14, 16] {
        let b = 1usize << p;
        for d in [-300i64, -120, -40, -8, -1, 0, 1, 8, 40, 120] {
            sizes.push((b as i64 + d).max(0) as usize);
        }
    }
    let mut out = vec![];
    for n in sizes {
        let pad_c = "c".repeat(n);
        let pad_w = " ".repeat(n);
        out.push(format!("{XML_HDR}<!--{pad_c}-->\n{open}{body}").into_bytes());
        out.push(format!("{XML_HDR}{pad_w}\n{open}{body}").into_bytes());
        out.push(format!("{XML_HDR}<?pi {pad_c}?>\n{open}{body}").into_bytes());
        out.push(format!("{XML_HDR}{}{pad_w}>{body}", &open[..open.len() - 1]).into_bytes());
        out.push(format!("{XML_HDR}{open}<!--{pad_c}-->{body}").into_bytes());
        out.push(format!("{pad_w}{XML_HDR}{open}{body}").into_bytes());
    }
    out
}

pub fn header_variants() -> Vec<Vec<u8>> {
    // <?xml with 0-3 attributes in all quote / blank shapes
    let names = ["version", "encoding", "standalone", "bogus"];
    let shapes: Vec<Box<dyn Fn(&str, &str) -> String>> = vec![
        Box::new(|n, v| format!("{n}=\"{v}\"")),
        Box::new(|n, v| format!("{n}='{v}'")),
        Box::new(|n, _| format!("{n}=")),
        Box::new(|n, _| n.to_string()),
        Box::new(|n, _| format!("{n}=\"")),
        Box::new(|n, _| format!("{n}=\"\"")),
        Box::new(|n, v| format!("{n}={v}")),
        Box::new(|n, v| format!("{n} = \"{v}\"")),
        Box::new(|_, _| "=".to_string()),
        Box::new(|_, _| "=\"".to_string()),
    ];
    let vals = ["1.0", "utf-8", "yes", "x"];
    let mut out = vec![];
    let tail = "\n<AUTOSAR xsi:schemaLocation=\"http://autosar.org/schema/r4.0 AUTOSAR_00050.xsd\" xmlns=\"http://autosar.org/schema/r4.0\" xmlns:xsi=\"http://www.w3.org/2001/XMLSchema-instance\"></AUTOSAR>";
    let mut attrs: Vec<String> = vec![];
    for (i, n) in names.iter().enumerate() {
        for s in &shapes {
            attrs.push(s(n, vals[i]));
        }
    }
    for pre in ["<?xml", "<?xml ", "<?xml\n", "<?", "<? xml ", "<?XML "] {
        out.push(format!("{pre}?>{tail}").into_bytes());
        for a in &attrs {
            out.push(format!("{pre}{a}?>{tail}").into_bytes());
            out.push(format!("{pre} {a} ?>{tail}").into_bytes());
            for b in &attrs {
                out.push(format!("{pre} {a} {b}?>{tail}").into_bytes());
            }
        }
    }
    // three attributes: good version + good encoding + each shape of standalone
    for a in attrs.iter().filter(|a| a.starts_with("standalone") || a.starts_with('=')) {
        out.push(format!("<?xml version=\"1.0\" encoding=\"utf-8\" {a}?>{tail}").into_bytes());
    }
    out
}
