//! C08 — strict and lenient validation agree; strict validation has no holes.
use crate::adoc::*;
use crate::c01::DocCase;
use crate::engine::*;
use crate::loader::*;
use crate::spec::*;
use autosar_data_specification::*;
use proptest::prelude::*;
use serde_json::{json, Value};

pub const DEFECTS: [&str; 22] = [
    "unknown-element",
    "element-in-wrong-parent",
    "version-foreign-element",
    "unknown-attribute",
    "attribute-of-other-element",
    "version-foreign-attribute",
    "unknown-enum-text",
    "enum-item-of-other-enum",
    "version-foreign-enum-item",
    "choice-conflict",
    "repeated-single-element",
    "missing-short-name",
    "missing-required-attribute",
    "overlong-value",
    "pattern-nonmember",
    "not-a-number",
    "malformed-entity",
    "text-in-element-only",
    "nested-xml-header",
    "trailing-data",
    "wrong-version-label",
    "invalid-utf8",
];

#[derive(Clone, Debug)]
pub struct InjCase {
    pub doc: DocCase,
    pub defect: usize,
    pub sel: Vec<u32>,
}

impl InjCase {
    fn to_json(&self) -> Value {
        json!({"kind": "injected", "doc": self.doc.to_json(), "defect": DEFECTS[self.defect], "sel": self.sel})
    }
    fn from_json(v: &Value) -> Option<InjCase> {
        let d = DocCase::from_json(&v["doc"])?;
        let defect = DEFECTS.iter().position(|x| Some(*x) == v["defect"].as_str())?;
        let sel = v["sel"].as_array()?.iter().map(|x| x.as_u64().unwrap_or(0) as u32).collect();
        Some(InjCase { doc: d, defect, sel })
    }
}

/// all nodes as child-index paths
fn node_paths(n: &ANode, cur: &mut Vec<usize>, out: &mut Vec<Vec<usize>>) {
    out.push(cur.clone());
    for (i, c) in n.content.iter().enumerate() {
        if let AContent::Elem(e) = c {
            cur.push(i);
            node_paths(e, cur, out);
            cur.pop();
        }
    }
}

fn node_at<'a>(n: &'a mut ANode, path: &[usize]) -> &'a mut ANode {
    let mut cur = n;
    for i in path {
        cur = match &mut cur.content[*i] {
            AContent::Elem(e) => e,
            _ => unreachable!(),
        };
    }
    cur
}

fn node_ref<'a>(n: &'a ANode, path: &[usize]) -> &'a ANode {
    let mut cur = n;
    for i in path {
        cur = match &cur.content[*i] {
            AContent::Elem(e) => e,
            _ => unreachable!(),
        };
    }
    cur
}

fn is_elements_mode(et: ElementType) -> bool {
    matches!(et.content_mode(), ContentMode::Sequence | ContentMode::Choice | ContentMode::Bag)
}

/// Try to inject the defect; returns a description when the tables say the result is a
/// documented violation. `tail` receives trailing data, `label` a replacement xsd label.
pub fn inject(doc: &mut ADoc, defect: usize, sel: &mut Tape, tail: &mut Vec<u8>, label: &mut Option<String>) -> Option<String> {
    let si = SpecIndex::get();
    let vi = ver_index(doc.version);
    let vbit = 1u32 << vi;
    let mut paths = vec![];
    node_paths(&doc.root, &mut vec![], &mut paths);
    // rotate the candidate list by a random offset, take the first applicable node
    let off = sel.below(paths.len());
    paths.rotate_left(off);
    let kind = DEFECTS[defect];
    match kind {
        "trailing-data" => {
            // also behind a comment, a processing instruction or white space (the end-of-input check must look past them)
            const T: &[&[u8]] = &[
                b"x", b"<X/>", b"<AUTOSAR/>", b"&amp;", b"</AUTOSAR>", b"<AR-PACKAGES/>", b"<!--c--><X/>", b"<!-- c -->x", b"\n<!--c-->\n<AR-PACKAGES></AR-PACKAGES>", b"<!--a--><!--b--></AUTOSAR>", b"  \n x",
                b"<!--c-->\n<AUTOSAR></AUTOSAR>", b"\n\n<!--c-->&amp;",
            ];
            *tail = T[sel.below(T.len())].to_vec();
            return Some(format!("trailing data {:?}", String::from_utf8_lossy(tail)));
        }
        "wrong-version-label" => {
            const L: &[&str] = &["AUTOSAR_4-3-1.xsd", "AUTOSAR_4-4-0.xsd", "AUTOSAR_4-5-0.xsd", "AUTOSAR_9-9-9.xsd", "AUTOSAR_00099.xsd", "AUTOSAR.xsd", ""];
            let l = L[sel.below(L.len())];
            *label = Some(l.to_string());
            return Some(format!("xsd label {l:?}"));
        }
        _ => {}
    }
    for p in &paths {
        let node = node_ref(&doc.root, p);
        let et = node.etype;
        let tid = si.id_of(et);
        let is_root = p.is_empty();
        match kind {
            "unknown-element" => {
                if is_elements_mode(et) {
                    let mut bogus = ANode::new(ElementName::ShortName, et);
                    let nm = ["BOGUS-ELEMENT", "short-name", "XQ", "AR-PACKAGEX", "SHORT_NAME"][sel.below(5)];
                    if si.element_names.iter().any(|e| e.to_str() == nm) {
                        continue;
                    }
                    bogus.raw_name = Some(nm.to_string());
                    let n = node_at(&mut doc.root, p);
                    let pos = sel.below(n.content.len() + 1);
                    n.content.insert(pos, AContent::Elem(bogus));
                    return Some("unknown element".into());
                }
            }
            "element-in-wrong-parent" => {
                if is_elements_mode(et) {
                    let k = sel.below(si.element_names.len());
                    let cand = si.element_names[k];
                    if et.find_sub_element(cand, u32::MAX).is_none() && !si.types[tid].subs.iter().any(|s| s.name == cand) {
                        let n = node_at(&mut doc.root, p);
                        let pos = sel.below(n.content.len() + 1);
                        n.content.insert(pos, AContent::Elem(ANode::new(cand, et)));
                        return Some(format!("{cand} inside {}", node_ref(&doc.root, p).name));
                    }
                }
            }
            "version-foreign-element" => {
                if is_elements_mode(et) {
                    let foreign: Vec<&SubInfo> = si.types[tid].subs.iter().filter(|s| s.mask & vbit == 0 && et.find_sub_element(s.name, vbit).is_none()).collect();
                    if !foreign.is_empty() {
                        let s = foreign[sel.below(foreign.len())];
                        let mut child = ANode::new(s.name, s.etype);
                        // keep the child itself harmless: required attributes + short name are not needed for the claim
                        child.raw_attrs.clear();
                        let n = node_at(&mut doc.root, p);
                        n.content.push(AContent::Elem(child));
                        return Some(format!("{} (mask {:#x}) in version bit {:#x}", s.name, s.mask, vbit));
                    }
                }
            }
            "unknown-attribute" => {
                if !is_root {
                    let n = node_at(&mut doc.root, p);
                    n.raw_attrs.push((["BOGUS", "uuid", "xml:space", "S2"][sel.below(4)].to_string(), "x".to_string()));
                    return Some("unknown attribute".into());
                }
            }
            "attribute-of-other-element" => {
                if !is_root {
                    let k = sel.below(si.attribute_names.len());
                    let a = si.attribute_names[k];
                    if et.find_attribute_spec(a).is_none() {
                        let n = node_at(&mut doc.root, p);
                        n.raw_attrs.push((a.to_str().to_string(), "x".to_string()));
                        return Some(format!("attribute {a} not defined for {}", n.name));
                    }
                }
            }
            "version-foreign-attribute" => {
                let foreign: Vec<&AttrInfo> = si.types[tid].attrs.iter().filter(|a| a.mask & vbit == 0).collect();
                if !is_root && !foreign.is_empty() {
                    let a = foreign[sel.below(foreign.len())];
                    if !node.attrs.iter().any(|(n, _)| *n == a.name) {
                        // a value that is valid for the attribute in SOME version
                        let val = match a.spec {
                            CharacterDataSpec::Enum { items } => items[0].0.to_str().to_string(),
                            CharacterDataSpec::Pattern { regex, .. } => String::from_utf8(pattern_dfa(regex).member(&[], PLAIN)).unwrap_or_default(),
                            CharacterDataSpec::String { .. } => "x".to_string(),
                            CharacterDataSpec::UnsignedInteger => "1".to_string(),
                            CharacterDataSpec::Float => "1".to_string(),
                        };
                        let n = node_at(&mut doc.root, p);
                        n.raw_attrs.push((a.name.to_str().to_string(), val));
                        return Some(format!("attribute {} (mask {:#x}) in version bit {:#x}", a.name, a.mask, vbit));
                    }
                }
            }
            "unknown-enum-text" | "enum-item-of-other-enum" | "version-foreign-enum-item" => {
                // element content or attribute of enum type
                let mut slots: Vec<(Option<usize>, &'static [(EnumItem, u32)])> = vec![];
                if let (Some(CharacterDataSpec::Enum { items }), Some(AContent::Text(_))) = (et.chardata_spec(), node.content.first()) {
                    slots.push((None, items));
                }
                for (i, (an, _)) in node.attrs.iter().enumerate() {
                    if let Some(AttributeSpec { spec: CharacterDataSpec::Enum { items }, .. }) = et.find_attribute_spec(*an) {
                        slots.push((Some(i), items));
                    }
                }
                if !slots.is_empty() && !is_root {
                    let (slot, items) = slots[sel.below(slots.len())];
                    let text: Option<String> = match kind {
                        "unknown-enum-text" => Some(["BOGUS-ITEM", "", "true ", "x y"][sel.below(3)].to_string()).map(|t| if t.is_empty() { "NOT-AN-ITEM".into() } else { t }),
                        "enum-item-of-other-enum" => {
                            let k = sel.below(si.enum_items.len());
                            let it = si.enum_items[k];
                            if items.iter().any(|(i, _)| *i == it) {
                                None
                            } else {
                                Some(it.to_str().to_string())
                            }
                        }
                        _ => {
                            let f: Vec<EnumItem> = items.iter().filter(|(_, m)| m & vbit == 0).map(|(i, _)| *i).collect();
                            if f.is_empty() {
                                None
                            } else {
                                Some(f[sel.below(f.len())].to_str().to_string())
                            }
                        }
                    };
                    if let Some(t) = text {
                        let n = node_at(&mut doc.root, p);
                        match slot {
                            None => n.content[0] = AContent::Text(AVal::Raw(t.clone())),
                            Some(i) => n.attrs[i].1 = AVal::Raw(t.clone()),
                        }
                        return Some(format!("enum text {t:?} in {}", n.name));
                    }
                }
            }
            "choice-conflict" | "repeated-single-element" => {
                if is_elements_mode(et) {
                    if let Some(g) = si.grammar(tid, vbit) {
                        let names: Vec<ElementName> = node.children().map(|c| c.name).collect();
                        if names.len() != node.content.len() || !valid_content(&g, &names) {
                            continue;
                        }
                        if kind == "repeated-single-element" {
                            for (i, nm) in names.iter().enumerate() {
                                if *nm == ElementName::ShortName && sel.below(4) != 0 {
                                    continue;
                                }
                                let mut nn = names.clone();
                                nn.insert(i + 1, *nm);
                                if !valid_content(&g, &nn) {
                                    // confirm by the tables: container sequence/choice and multiplicity != any
                                    let Some((_, idx)) = et.find_sub_element(*nm, vbit) else { continue };
                                    let cm = et.get_sub_element_container_mode(&idx);
                                    let mult = et.get_sub_element_multiplicity(&idx);
                                    if !matches!(cm, ContentMode::Sequence | ContentMode::Choice) || mult == Some(ElementMultiplicity::Any) {
                                        continue;
                                    }
                                    // the claim is decided with the adjacent duplicate (no ordering involved); the duplicate itself
                                    // is placed adjacently or after some later siblings (the validator ignores sibling order)
                                    let n = node_at(&mut doc.root, p);
                                    let dup = n.content[i].clone();
                                    let at = if sel.chance(128) { i + 1 } else { i + 1 + sel.below(n.content.len() - i) };
                                    n.content.insert(at.min(n.content.len()), dup);
                                    return Some(format!("second {nm} inside {} ({})", n.name, if at == i + 1 { "adjacent" } else { "separated" }));
                                }
                            }
                        } else {
                            // find a choice group with an existing alternative A and another alternative B (direct element items)
                            fn choices<'a>(g: &'a GNode, out: &mut Vec<&'a Vec<GNode>>) {
                                if let GNode::Group { mode, items } = g {
                                    if *mode == ContentMode::Choice {
                                        out.push(items);
                                    }
                                    for it in items {
                                        choices(it, out);
                                    }
                                }
                            }
                            let mut ch = vec![];
                            choices(&g, &mut ch);
                            for items in ch {
                                let elems: Vec<(ElementName, ElementType)> = items.iter().filter_map(|i| if let GNode::Elem { name, etype, .. } = i { Some((*name, *etype)) } else { None }).collect();
                                for (i, nm) in names.iter().enumerate() {
                                    if elems.iter().any(|(n, _)| n == nm) {
                                        let others: Vec<&(ElementName, ElementType)> = elems.iter().filter(|(n, _)| n != nm).collect();
                                        if others.is_empty() {
                                            continue;
                                        }
                                        let (b, bt) = others[sel.below(others.len())];
                                        let mut nn = names.clone();
                                        nn.insert(i + 1, *b);
                                        if !valid_content(&g, &nn) {
                                            let n = node_at(&mut doc.root, p);
                                            n.content.insert(i + 1, AContent::Elem(ANode::new(*b, *bt)));
                                            return Some(format!("{b} right after its alternative {nm} inside {}", n.name));
                                        }
                                    }
                                }
                            }
                        }
                    }
                }
            }
            "missing-short-name" => {
                if et.is_named_in_version(doc.version) && node.children().any(|c| c.name == ElementName::ShortName) {
                    let n = node_at(&mut doc.root, p);
                    n.content.retain(|c| !matches!(c, AContent::Elem(e) if e.name == ElementName::ShortName));
                    return Some(format!("{} without SHORT-NAME", n.name));
                }
            }
            "missing-required-attribute" => {
                let req: Vec<AttributeName> = si.types[tid].attrs.iter().filter(|a| a.required).map(|a| a.name).collect();
                if !is_root && !req.is_empty() {
                    let a = req[sel.below(req.len())];
                    if node.attrs.iter().any(|(n, _)| *n == a) {
                        let n = node_at(&mut doc.root, p);
                        n.attrs.retain(|(x, _)| *x != a);
                        return Some(format!("{} without required {a}", n.name));
                    }
                }
            }
            "overlong-value" | "pattern-nonmember" | "not-a-number" | "malformed-entity" | "invalid-utf8" => {
                let mut slots: Vec<(Option<usize>, &'static CharacterDataSpec)> = vec![];
                if let (Some(spec), Some(AContent::Text(_))) = (et.chardata_spec(), node.content.first()) {
                    if et.content_mode() == ContentMode::Characters {
                        slots.push((None, spec));
                    }
                }
                for (i, (an, _)) in node.attrs.iter().enumerate() {
                    if let Some(a) = et.find_attribute_spec(*an) {
                        slots.push((Some(i), a.spec));
                    }
                }
                if is_root {
                    continue;
                }
                for (slot, spec) in slots {
                    let text: Option<String> = match (kind, spec) {
                        ("overlong-value", CharacterDataSpec::String { max_length: Some(m), .. }) => Some("a".repeat(m + 1)),
                        ("overlong-value", CharacterDataSpec::Pattern { regex, max_length: Some(m), .. }) => {
                            // a member of the pattern that is too long
                            let d = pattern_dfa(regex);
                            let tape: Vec<u32> = (0..(*m as u32 + 40)).map(|i| 0x0100_0009 + i * 8).collect();
                            let s = String::from_utf8(d.member(&tape, b"a")).unwrap_or_default();
                            if s.len() > *m && !s.contains(['&', '<', '>', '"', '\'']) && s.trim() == s {
                                Some(s)
                            } else {
                                None
                            }
                        }
                        ("pattern-nonmember", CharacterDataSpec::Pattern { regex, max_length, .. }) => {
                            let d = pattern_dfa(regex);
                            let m = d.member(&sel.take(6), PLAIN);
                            let mut cand = m.clone();
                            let alpha = b"!#$%*+,-./0:;=?@AZ[]^_`az{|}~ 9";
                            let pos = sel.below(cand.len() + 1);
                            let ch = alpha[sel.below(alpha.len())];
                            if sel.chance(128) && pos < cand.len() {
                                cand[pos] = ch;
                            } else {
                                cand.insert(pos, ch);
                            }
                            let s = String::from_utf8(cand).ok()?;
                            let all_reject = pattern_dfas3(regex).iter().all(|x| !x.accepts(s.as_bytes()));
                            let known_impl_accepts = known_overaccepted(regex, s.as_bytes());
                            if all_reject && !known_impl_accepts && !s.is_empty() && s.trim() == s && max_length.is_none_or(|mx| s.len() <= mx) && !s.contains(['&', '<', '>', '"', '\'']) {
                                Some(s)
                            } else {
                                None
                            }
                        }
                        ("not-a-number", CharacterDataSpec::UnsignedInteger) => Some(["abc", "-1", "1.5", "0x10", "18446744073709551616", "1 2", "١"][sel.below(7)].to_string()),
                        ("not-a-number", CharacterDataSpec::Float) => Some(["abc", "1,5", "0x10", "1e", "--1", "1 2", "e5"][sel.below(7)].to_string()),
                        ("malformed-entity", CharacterDataSpec::String { .. }) => Some(format!("a{}b", ["&", "&bogus;", "&#xZZ;", "&#;", "&#x110000;", "&amp", "&#xD800;", "& amp;", "&#-1;"][sel.below(9)])),
                        ("malformed-entity", CharacterDataSpec::Pattern { regex, .. }) if regex.contains(".*") => Some(format!("1.0.0;{}", ["&bogus;", "&", "&#xZZ;"][sel.below(3)])),
                        ("invalid-utf8", CharacterDataSpec::String { .. }) => Some("a\u{FFFE}INVALID".to_string()),
                        _ => None,
                    };
                    if let Some(t) = text {
                        let n = node_at(&mut doc.root, p);
                        match slot {
                            None => n.content[0] = AContent::Text(AVal::Raw(t.clone())),
                            Some(i) => n.attrs[i].1 = AVal::Raw(t.clone()),
                        }
                        return Some(format!("value {:?} in {}", &t[..t.len().min(60)], n.name));
                    }
                }
            }
            "text-in-element-only" => {
                if is_elements_mode(et) && et.chardata_spec().is_none() {
                    let n = node_at(&mut doc.root, p);
                    let pos = sel.below(n.content.len() + 1);
                    n.content.insert(pos, AContent::Raw(["text", "0", "&amp;", " x "][sel.below(4)].to_string()));
                    return Some(format!("text inside {}", n.name));
                }
            }
            "nested-xml-header" => {
                if is_elements_mode(et) {
                    let n = node_at(&mut doc.root, p);
                    let pos = sel.below(n.content.len() + 1);
                    n.content.insert(pos, AContent::Raw("<?xml version=\"1.0\" encoding=\"utf-8\"?>".to_string()));
                    return Some(format!("xml header inside {}", n.name));
                }
            }
            _ => {}
        }
    }
    None
}

fn render_injected(c: &InjCase) -> Option<(Vec<u8>, String)> {
    let mut doc = c.doc.build()?;
    let mut sel = Tape::new(&c.sel);
    let mut tail = vec![];
    let mut label = None;
    let what = inject(&mut doc, c.defect, &mut sel, &mut tail, &mut label)?;
    let (mut bytes, _) = render(&doc, &c.doc.style, c.doc.plain);
    if let Some(l) = label {
        let from = doc.version.filename();
        let text = String::from_utf8_lossy(&bytes).to_string();
        let lower = from.replacen("AUTOSAR", "autosar", 1);
        let text = text.replacen(from, &l, 1).replacen(&lower, &l, 1);
        bytes = text.into_bytes();
    }
    if DEFECTS[c.defect] == "invalid-utf8" {
        // replace the marker by an invalid byte sequence
        let marker = "\u{FFFE}INVALID".as_bytes();
        if let Some(pos) = bytes.windows(marker.len()).position(|w| w == marker) {
            bytes.splice(pos..pos + marker.len(), [0xC3u8, 0x28, 0xFF]);
        }
    }
    bytes.extend_from_slice(&tail);
    Some((bytes, what))
}

fn check_injected(c: &InjCase, st: &mut Stats) -> Outcome {
    let Some((bytes, what)) = render_injected(c) else {
        st.class(&format!("not-applicable:{}", DEFECTS[c.defect]));
        return Outcome::Pass;
    };
    st.eval();
    let out = match run_all(&bytes) {
        Ok(o) => o,
        Err(_) => {
            st.class("skipped:panic(C02)");
            return Outcome::Pass;
        }
    };
    st.nontrivial(fnv(&bytes));
    let kind = DEFECTS[c.defect];
    let text = String::from_utf8_lossy(&bytes).to_string();
    match &out.strict {
        Err(e) => {
            st.class(&format!("{kind} -> strict {}", e.variant));
        }
        Ok(_) => {
            return Outcome::Fail(Failure::new(
                format!("R4:strict-accepts:{kind}"),
                format!("strict loading accepts a document with an injected documented defect ({kind}: {what})\n--- document ---\n{}", &text[..text.len().min(3000)]),
                c.to_json(),
            ));
        }
    }
    if st.want_sample() && bytes.len() < 700 {
        st.sample(json!({"defect": kind, "what": what, "strict_error": out.strict.as_ref().err().map(|e| e.display.clone()), "document": text}));
    }
    // the differential relations hold here as well
    match oracle_c08(&bytes, st) {
        Ok(()) => Outcome::Pass,
        Err(f) => Outcome::Fail(f),
    }
}

pub fn run(ctx: &Ctx) {
    ctx.set_rule(
        "All of C02's generated inputs (exhaustive short strings in nine contexts, mutated/truncated documents, random bytes) under the strict/lenient differential R1-R3, plus \
         specification-derived valid documents of every version with one injected defect from a 22-class catalogue (claimed only when the tables say it is a violation) which strict loading must reject (R4). \
         Non-trivial: lenient load returned warnings, or both modes rejected after line 2, or the document carries an injected defect; distinct by bytes.",
    );
    ctx.assume("an injected defect is claimed only when the specification tables decide it (multiplicity != any and container sequence/choice; alternatives that are direct items of one choice group and my own grammar matcher rejects the result; pattern non-membership under all three readings of '.')");
    crate::c02::drive(ctx, oracle_c08);

    let reach: Vec<Vec<usize>> = (0..NVER).map(crate::c01::reachable).collect();
    let cases = ctx.tier.pick(400_000u64, 4_000_000u64);
    let strat = (0..NVER, any::<u32>(), proptest::collection::vec(any::<u32>(), 0..120), proptest::collection::vec(any::<u32>(), 0..160), 0..DEFECTS.len(), proptest::collection::vec(any::<u32>(), 1..12));
    run_prop(ctx, "injected", cases, strat, |(vi, tsel, tape, style, defect, sel), st| {
        let r = &reach[*vi];
        let target = r[((*tsel as u64 * r.len() as u64) >> 32) as usize];
        let c = InjCase { doc: DocCase { vi: *vi, target, tape: tape.clone(), style: style.clone(), budget: 14, plain: style.len() < 10 }, defect: *defect, sel: sel.clone() };
        check_injected(&c, st)
    });
    if ctx.tier == Tier::Thorough {
        crate::fuzzstage::run(ctx, "C08", oracle_c08);
    }
}

pub fn replay(ctx: &Ctx, case: &Value) {
    let mut st = Stats::new();
    if case["kind"] == "injected" {
        if let Some(c) = InjCase::from_json(case) {
            if let Outcome::Fail(f) = check_injected(&c, &mut st) {
                ctx.report(f);
            }
        }
    } else {
        let b = bytes_from_json(&case["input"]);
        if let Err(f) = oracle_c08(&b, &mut st) {
            ctx.report(f);
        }
    }
    ctx.merge(st);
}
