//! C17 — the version-compatibility check is exact and changing a file's version is safe.
use crate::adoc::*;
use crate::c01::DocCase;
use crate::engine::*;
use crate::spec::*;
use autosar_data::*;
use autosar_data_specification::CharacterDataSpec;
use proptest::prelude::*;
use serde_json::{json, Value};

#[derive(Clone, Debug)]
pub struct CompatCase {
    pub doc: DocCase,
    pub target: usize,
    /// multi-file variant: another file (a package of its own) is loaded first, so that elements of another file
    /// precede the checked file's elements under the shared parents
    pub other_first: bool,
    /// character-data elements that carry attributes lose their text (<X-REF DEST="..."/>): elements without content
    pub hollow: bool,
}

impl CompatCase {
    fn to_json(&self) -> Value {
        json!({"kind": "compat", "doc": self.doc.to_json(), "target_vi": self.target, "other_first": self.other_first, "hollow": self.hollow})
    }
    fn from_json(v: &Value) -> Option<CompatCase> {
        Some(CompatCase { doc: DocCase::from_json(&v["doc"])?, target: v["target_vi"].as_u64()? as usize, other_first: v["other_first"].as_bool().unwrap_or(false), hollow: v["hollow"].as_bool().unwrap_or(false) })
    }
}

/// types with version-sensitive material in version vi: a sub element, attribute or enumeration item whose mask is partial
pub fn sensitive_types(vi: usize) -> Vec<usize> {
    let si = SpecIndex::get();
    let vbit = 1u32 << vi;
    let mut out = vec![];
    for t in crate::c01::reachable(vi) {
        let ti = &si.types[t];
        let partial = |m: u32| m & vbit != 0 && m & ALL_VERSIONS_MASK != ALL_VERSIONS_MASK;
        let enum_partial = |spec: Option<&'static CharacterDataSpec>| matches!(spec, Some(CharacterDataSpec::Enum { items }) if items.iter().any(|(_, m)| partial(*m)));
        if ti.subs.iter().any(|s| partial(s.mask) || (s.named_mask != 0 && s.named_mask & ALL_VERSIONS_MASK != ALL_VERSIONS_MASK)) || ti.attrs.iter().any(|a| partial(a.mask) || enum_partial(Some(a.spec))) || enum_partial(ti.etype.chardata_spec()) {
            out.push(t);
        }
    }
    out
}

fn first_strict_error(text: &[u8]) -> Option<String> {
    let m = AutosarModel::new();
    m.load_buffer(text, "t.arxml", true).err().map(|e| e.to_string())
}

/// does the document carry an attribute whose enumeration value does not exist in the target version?
fn has_attr_enum_outside(n: &ANode, tbit: u32) -> bool {
    for (a, v) in &n.attrs {
        if let (Some(spec), AVal::Enum(item)) = (n.etype.find_attribute_spec(*a), v) {
            if let CharacterDataSpec::Enum { items } = spec.spec {
                if items.iter().any(|(i, m)| i == item && m & tbit == 0) {
                    return true;
                }
            }
        }
    }
    n.children().any(|k| has_attr_enum_outside(k, tbit))
}

fn hollow_out(n: &mut ANode) {
    if n.etype.content_mode() == autosar_data_specification::ContentMode::Characters && !n.attrs.is_empty() {
        n.content.clear();
    }
    for c in &mut n.content {
        if let AContent::Elem(e) = c {
            hollow_out(e);
        }
    }
}

pub fn run_case(c: &CompatCase, st: &mut Stats) -> Result<(), Failure> {
    let Some(mut doc) = c.doc.build() else { return Ok(()) };
    if c.hollow {
        hollow_out(&mut doc.root);
        st.class("hollow-elements");
        // an element without text is not always valid: such documents are simply skipped
        let (probe, _) = render(&doc, &[], true);
        if AutosarModel::new().load_buffer(&probe, "probe.arxml", true).is_err() {
            st.class("hollow:not-valid-in-own-version(skipped)");
            return Ok(());
        }
    }
    let v = doc.version;
    let t = versions()[c.target];
    let (bytes_v, _) = render(&doc, &[], true);
    st.eval();
    let fail = |sig: &str, msg: String| Failure::new(sig, format!("{msg}\n--- document ({:?}, target {:?}) ---\n{}", v, t, String::from_utf8_lossy(&bytes_v[..bytes_v.len().min(2500)])), c.to_json());
    let m = AutosarModel::new();
    if c.other_first {
        // a second file of the same version holding packages of its own (names that sort before and after the generated ones)
        let other = format!("{}<AR-PACKAGES><AR-PACKAGE><SHORT-NAME>A0_other</SHORT-NAME><ELEMENTS><SYSTEM-SIGNAL><SHORT-NAME>s</SHORT-NAME></SYSTEM-SIGNAL></ELEMENTS></AR-PACKAGE><AR-PACKAGE><SHORT-NAME>zz_other</SHORT-NAME></AR-PACKAGE></AR-PACKAGES></AUTOSAR>", hdr(v));
        if m.load_buffer(other.as_bytes(), "other.arxml", true).is_err() {
            st.class("other-file-not-loadable-in-this-version");
            return Ok(());
        }
        st.class("multi-file");
    }
    let (file, _) = match m.load_buffer(&bytes_v, "v.arxml", true) {
        Ok(x) => x,
        Err(e) => {
            st.class("generator_rejected");
            return Err(fail("generator-rejected", format!("the generated document is rejected in its own version: {e}")));
        }
    };
    // own rendering with the xsd name of the target version
    let mut doc_t = doc.clone();
    doc_t.version = t;
    let (bytes_t, _) = render(&doc_t, &[], true);
    let strict_err = first_strict_error(&bytes_t);
    let strict_ok = strict_err.is_none();
    let (errs, mask) = file.check_version_compatibility(t);
    let tbit = t as u32;
    st.class(if strict_ok { "target:valid" } else { "target:invalid" });
    if !strict_ok || mask & ALL_VERSIONS_MASK != ALL_VERSIONS_MASK {
        st.nontrivial(mix(fnv(&bytes_v), c.target as u64));
    }
    let describe = |errs: &Vec<CompatibilityError>| -> String {
        errs.iter()
            .take(3)
            .map(|e| match e {
                CompatibilityError::IncompatibleElement { element, version_mask } => format!("IncompatibleElement({}, {:#x})", element.element_name(), version_mask),
                CompatibilityError::IncompatibleAttribute { element, attribute, version_mask } => format!("IncompatibleAttribute({}.{}, {:#x})", element.element_name(), attribute, version_mask),
                CompatibilityError::IncompatibleAttributeValue { element, attribute, attribute_value, version_mask } => format!("IncompatibleAttributeValue({}.{}={}, {:#x})", element.element_name(), attribute, attribute_value, version_mask),
            })
            .collect::<Vec<_>>()
            .join(", ")
    };
    let attr_enum_bad = has_attr_enum_outside(&doc.root, t as u32);
    let reason_class = |e: &str| -> &'static str {
        if e.contains("Multiple conflicting sub elements") || (e.contains("Only one ") && e.contains("is allowed inside")) {
            // the content model of the parent differs in the target version (choice instead of sequence, single instead of
            // repeated): the check looks at items one by one (KF-C17-5)
            "content-model-in-target"
        } else if e.contains("Attribute ") && e.contains("but is not allowed in") {
            // a KNOWN attribute whose version mask excludes the target (the recorded gap KF-C17-2 is about attributes the
            // target's element type does not know at all)
            "attribute-version"
        } else if e.contains("enum item") && attr_enum_bad {
            "attribute-enum-item"
        } else if e.contains("enum item") {
            "enum-item"
        } else if e.contains("required sub element SHORT-NAME") || e.contains("SHORT-NAME was not found") {
            "short-name-required-in-target"
        } else if e.contains("not matched by the validation regex") || e.contains("too long") {
            "value-space-differs-in-target"
        } else if e.contains("Attribute") || e.contains("attribute") {
            "attribute"
        } else if e.contains("not allowed in") || e.contains("unexpected child") {
            "element"
        } else {
            "other"
        }
    };
    if errs.is_empty() != strict_ok {
        if strict_ok {
            return Err(fail("compat:reports-incompatibility-for-valid-target", format!("check_version_compatibility lists [{}] but the content relabelled as {:?} passes strict validation", describe(&errs), t)));
        }
        let e = strict_err.clone().unwrap();
        return Err(fail(&format!("compat:misses-incompatibility:{}", reason_class(&e)), format!("check_version_compatibility lists nothing but the content relabelled as {:?} fails strict validation: {e}", t)));
    }
    if (mask & tbit != 0) != strict_ok {
        return Err(fail(if strict_ok { "compat:mask-excludes-valid-target" } else { "compat:mask-contains-invalid-target" }, format!("returned mask {:#x} {} the target bit {:#x}, strict validation of the relabelled content: {}", mask, if mask & tbit != 0 { "contains" } else { "lacks" }, tbit, strict_err.clone().unwrap_or("ok".into()))));
    }
    // set_version
    let view = |f: &ArxmlFile| -> ANode {
        // the checked file's own content (loaded on its own from its text)
        let t = f.serialize().unwrap_or_default();
        let mm = AutosarModel::new();
        let _ = mm.load_buffer(t.as_bytes(), "view.arxml", false);
        // element types depend on the version the text is loaded as: compare names, values, attributes, comments only
        fn strip(n: &mut ANode) {
            n.etype = autosar_data_specification::ElementType::ROOT;
            for c in &mut n.content {
                if let AContent::Elem(e) = c {
                    strip(e);
                }
            }
        }
        let mut x = extract_model(&mm);
        strip(&mut x);
        x
    };
    let before = if c.other_first { view(&file) } else { extract_model(&m) };
    let text_before = file.serialize().unwrap_or_default();
    match file.set_version(t) {
        Ok(()) => {
            if !strict_ok {
                return Err(fail("set_version:accepts-invalid-target", format!("set_version({:?}) succeeded although the relabelled content fails strict validation: {}", t, strict_err.unwrap())));
            }
            if file.version() != t {
                return Err(fail("set_version:version-not-changed", format!("version() = {:?}", file.version())));
            }
            let after = if c.other_first { view(&file) } else { extract_model(&m) };
            if let Some(d) = before.diff(&after, "") {
                return Err(fail("set_version:content-changed", format!("set_version changed content: {d}")));
            }
            let text = file.serialize().map_err(|e| fail("set_version:serialize", e.to_string()))?;
            let m3 = AutosarModel::new();
            match m3.load_buffer(text.as_bytes(), "t.arxml", true) {
                Ok((f3, _)) => {
                    if f3.version() != t {
                        return Err(fail("set_version:written-label", format!("the re-serialized file loads as {:?}", f3.version())));
                    }
                }
                Err(e) => return Err(fail("set_version:result-not-strictly-valid", format!("after set_version({:?}) the serialized file fails strict loading: {e}", t))),
            }
        }
        Err(_) => {
            if strict_ok {
                return Err(fail("set_version:rejects-valid-target", format!("set_version({:?}) failed although the relabelled content passes strict validation", t)));
            }
            let after = if c.other_first { view(&file) } else { extract_model(&m) };
            if before.diff(&after, "").is_some() || file.version() != v || file.serialize().unwrap_or_default() != text_before {
                return Err(fail("set_version:failed-but-changed", "a failed set_version changed the file".into()));
            }
        }
    }
    if st.want_sample() && !strict_ok && bytes_v.len() < 900 {
        st.sample(json!({"source_version": format!("{:?}", v), "target_version": format!("{:?}", t), "strict_error_of_relabelled_content": strict_err, "compat_errors": describe(&errs), "document": String::from_utf8_lossy(&bytes_v)}));
    }
    Ok(())
}

/// "for every file": a file whose content does NOT fit its own label - a document valid in version A, labelled L and
/// loaded leniently (the parser warns and keeps what it can). The oracle reads the content as the library holds it:
/// the file's own serialization with the xsd name replaced by the target's, loaded strictly.
pub fn run_mislabel_case(c: &CompatCase, label: usize, st: &mut Stats) -> Result<(), Failure> {
    let Some(doc) = c.doc.build() else { return Ok(()) };
    let a = doc.version;
    let l = versions()[label];
    let t = versions()[c.target];
    let mut doc_l = doc.clone();
    doc_l.version = l;
    let (bytes_l, _) = render(&doc_l, &[], true);
    st.eval();
    let case = json!({"kind": "mislabel", "doc": c.doc.to_json(), "label_vi": label, "target_vi": c.target});
    let fail = |sig: &str, msg: String| Failure::new(sig, format!("{msg}\n--- document (content of {:?}, labelled {:?}, loaded leniently; target {:?}) ---\n{}", a, l, t, String::from_utf8_lossy(&bytes_l[..bytes_l.len().min(2500)])), case.clone());
    let m = AutosarModel::new();
    let (file, warnings) = match m.load_buffer(&bytes_l, "v.arxml", false) {
        Ok(x) => x,
        Err(_) => {
            st.class("mislabel:not-loadable-leniently");
            return Ok(());
        }
    };
    st.class(if warnings.is_empty() { "mislabel:fits-the-label-anyway" } else { "mislabel:loaded-with-warnings" });
    let Ok(text) = file.serialize() else { return Ok(()) };
    let relabelled = text.replacen(l.filename(), t.filename(), 1);
    let strict_err = first_strict_error(relabelled.as_bytes());
    let strict_ok = strict_err.is_none();
    let (errs, mask) = file.check_version_compatibility(t);
    let tbit = t as u32;
    st.class(if strict_ok { "target:valid" } else { "target:invalid" });
    if !warnings.is_empty() {
        st.nontrivial(mix(fnv(&bytes_l), c.target as u64));
    }
    let attr_enum_bad = has_attr_enum_outside(&doc.root, t as u32);
    let reason_class = |e: &str| -> &'static str {
        if e.contains("Multiple conflicting sub elements") || (e.contains("Only one ") && e.contains("is allowed inside")) {
            // the content model of the parent differs in the target version (choice instead of sequence, single instead of
            // repeated): the check looks at items one by one (KF-C17-5)
            "content-model-in-target"
        } else if e.contains("Attribute ") && e.contains("but is not allowed in") {
            // a KNOWN attribute whose version mask excludes the target (the recorded gap KF-C17-2 is about attributes the
            // target's element type does not know at all)
            "attribute-version"
        } else if e.contains("enum item") && attr_enum_bad {
            "attribute-enum-item"
        } else if e.contains("enum item") {
            "enum-item"
        } else if e.contains("required sub element SHORT-NAME") || e.contains("SHORT-NAME was not found") {
            "short-name-required-in-target"
        } else if e.contains("not matched by the validation regex") || e.contains("too long") {
            "value-space-differs-in-target"
        } else if e.contains("Attribute") || e.contains("attribute") {
            "attribute"
        } else if e.contains("not allowed in") || e.contains("unexpected child") {
            "element"
        } else {
            "other"
        }
    };
    if errs.is_empty() != strict_ok {
        if strict_ok {
            return Err(fail("compat:reports-incompatibility-for-valid-target", format!("check_version_compatibility lists {} item(s) but the file's content relabelled as {:?} passes strict validation", errs.len(), t)));
        }
        let e = strict_err.clone().unwrap();
        return Err(fail(&format!("compat:misses-incompatibility:{}", reason_class(&e)), format!("check_version_compatibility({:?}) lists nothing but the file's content relabelled as {:?} fails strict validation: {e}", t, t)));
    }
    if (mask & tbit != 0) != strict_ok {
        return Err(fail(if strict_ok { "compat:mask-excludes-valid-target" } else { "compat:mask-contains-invalid-target" }, format!("returned mask {:#x}, target bit {:#x}, strict validation of the relabelled content: {}", mask, tbit, strict_err.clone().unwrap_or("ok".into()))));
    }
    match file.set_version(t) {
        Ok(()) => {
            if !strict_ok {
                return Err(fail("set_version:accepts-invalid-target", format!("set_version({:?}) succeeded although the relabelled content fails strict validation: {}", t, strict_err.unwrap())));
            }
        }
        Err(_) => {
            if strict_ok {
                return Err(fail("set_version:rejects-valid-target", format!("set_version({:?}) failed although the relabelled content passes strict validation", t)));
            }
        }
    }
    Ok(())
}

pub fn run(ctx: &Ctx) {
    ctx.set_rule(
        "Documents strictly valid in a source version (specification-derived, targeted at element types that have sub elements, attributes or enumeration items with partial version masks, or that gain / lose their SHORT-NAME) x all 21 target versions. Oracle: the content is rendered by the harness with the target's xsd name and loaded strictly in a fresh model; check_version_compatibility lists nothing <=> that load succeeds; bit t of the returned mask <=> the same; set_version(t) succeeds <=> the same; after success the content is unchanged, version() == t and the re-serialized file loads strictly as t; after failure nothing changed. \
         Non-trivial: the relabelled content is invalid, or the returned mask excludes some version; distinct by (document bytes, target).",
    );
    let known_open = |sig: &str| ctx.is_known_open(sig);
    let sens: Vec<Vec<usize>> = (0..NVER).map(sensitive_types).collect();
    {
        let mut st = Stats::new();
        st.class_n("version-sensitive (type, version) pairs", sens.iter().map(|v| v.len() as u64).sum());
        ctx.merge(st);
    }
    let cases = ctx.tier.pick(100_000u64, 1_000_000u64);
    let strat = (0..NVER, any::<u32>(), proptest::collection::vec(any::<u32>(), 0..80), 0..NVER, any::<bool>(), any::<bool>());
    let reach: Vec<Vec<usize>> = (0..NVER).map(crate::c01::reachable).collect();
    run_prop(ctx, "compat", cases, strat, |(vi, tsel, tape, target, any_type, other_first), st| {
        let pool = if *any_type || sens[*vi].is_empty() { &reach[*vi] } else { &sens[*vi] };
        let tid = pool[((*tsel as u64 * pool.len() as u64) >> 32) as usize];
        // make optional content likely: prepend a few "yes" cells
        let mut t2 = vec![u32::MAX; 3];
        t2.extend_from_slice(tape);
        let c = CompatCase { doc: DocCase { vi: *vi, target: tid, tape: t2, style: vec![], budget: 14, plain: true }, target: *target, other_first: *other_first, hollow: tape.first().is_some_and(|x| x % 5 == 0) };
        match run_case(&c, st) {
            Ok(()) => Outcome::Pass,
            Err(f) => {
                if known_open(&f.signature) {
                    ctx.report(f);
                    Outcome::Pass
                } else {
                    Outcome::Fail(f)
                }
            }
        }
    });
    // files whose content does not fit their own label (lenient loads)
    let cases = ctx.tier.pick(60_000u64, 600_000u64);
    let strat = (0..NVER, any::<u32>(), proptest::collection::vec(any::<u32>(), 0..80), 0..NVER, 0..NVER, 0u8..4);
    run_prop(ctx, "mislabel", cases, strat, |(vi, tsel, tape, label, target, same), st| {
        let pool = if sens[*vi].is_empty() { &reach[*vi] } else { &sens[*vi] };
        let tid = pool[((*tsel as u64 * pool.len() as u64) >> 32) as usize];
        let mut t2 = vec![u32::MAX; 3];
        t2.extend_from_slice(tape);
        // half of the cases ask about the file's OWN version
        let target = if *same < 2 { *label } else { *target };
        let c = CompatCase { doc: DocCase { vi: *vi, target: tid, tape: t2, style: vec![], budget: 14, plain: true }, target, other_first: false, hollow: false };
        match run_mislabel_case(&c, *label, st) {
            Ok(()) => Outcome::Pass,
            Err(f) => {
                if known_open(&f.signature) {
                    ctx.report(f);
                    Outcome::Pass
                } else {
                    Outcome::Fail(f)
                }
            }
        }
    });
}

pub fn replay(ctx: &Ctx, case: &Value) {
    let mut st = Stats::new();
    if case["kind"] == "mislabel" {
        if let (Some(doc), Some(label), Some(target)) = (DocCase::from_json(&case["doc"]), case["label_vi"].as_u64(), case["target_vi"].as_u64()) {
            let c = CompatCase { doc, target: target as usize, other_first: false, hollow: false };
            if let Err(f) = run_mislabel_case(&c, label as usize, &mut st) {
                ctx.report(f);
            }
        }
    } else if let Some(c) = CompatCase::from_json(case) {
        if let Err(f) = run_case(&c, &mut st) {
            ctx.report(f);
        }
    }
    ctx.merge(st);
}
