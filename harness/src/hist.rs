//! Histories: operations over the public API with symbolic arguments, the interpreter, and the
//! world (models, files, element handles incl. stale ones).
#![allow(dead_code)]

use crate::adoc::*;
use crate::engine::*;
use crate::spec::*;
use autosar_data::*;
use autosar_data_specification::{CharacterDataSpec, ContentMode, ElementType};
use proptest::prelude::*;
use serde_json::{json, Value};
use std::collections::{HashMap, HashSet};

pub const NAMES: &[&str] = &["a", "a1", "a10", "a1b", "a02", "b", "pkg1", "pkg10", "x9", "x10", "x1a", "a2", "n18446744073709551616", "n99999999999999999999"];
pub const BAD_NAMES: &[&str] = &["", "1a", "a b", "a/b", "ä"];
pub const TOO_LONG_129: &str = "L01234567890123456789012345678901234567890123456789012345678901234567890123456789012345678901234567890123456789012345678901234567";
pub const TOO_LONG_200: &str = "M0123456789012345678901234567890123456789012345678901234567890123456789012345678901234567890123456789012345678901234567890123456789012345678901234567890123456789012345678901234567890123456789012345678";

pub const PALETTE: &[ElementName] = &[
    ElementName::ArPackages,
    ElementName::ArPackage,
    ElementName::Elements,
    ElementName::System,
    ElementName::FibexElements,
    ElementName::FibexElementRefConditional,
    ElementName::FibexElementRef,
    ElementName::CompuMethod,
    ElementName::CompuInternalToPhys,
    ElementName::CompuPhysToInternal,
    ElementName::CompuScales,
    ElementName::CompuScale,
    ElementName::LowerLimit,
    ElementName::UpperLimit,
    ElementName::CompuConst,
    ElementName::Vt,
    ElementName::V,
    ElementName::CompuRationalCoeffs,
    ElementName::CompuNumerator,
    ElementName::Desc,
    ElementName::L2,
    ElementName::LongName,
    ElementName::L4,
    ElementName::Category,
    ElementName::ShortName,
    ElementName::AdminData,
    ElementName::Sdgs,
    ElementName::Sdg,
    ElementName::Sd,
    ElementName::SwBaseType,
    ElementName::BaseTypeSize,
    ElementName::EcucModuleConfigurationValues,
    ElementName::Containers,
    ElementName::EcucContainerValue,
    ElementName::DefinitionRef,
    ElementName::SubContainers,
    ElementName::ParameterValues,
    ElementName::EcucNumericalParamValue,
    ElementName::EcucTextualParamValue,
    ElementName::Value,
    ElementName::ISignal,
    ElementName::SystemSignal,
    ElementName::SystemSignalRef,
    ElementName::Length,
    ElementName::UnitRef,
    ElementName::Unit,
    ElementName::Tt,
    ElementName::E,
    ElementName::Br,
    ElementName::DataTransformationSet,
    ElementName::TransformationTechnologys,
    ElementName::TransformationTechnology,
    ElementName::Index,
    ElementName::BswModuleEntry,
    ElementName::Arguments,
    ElementName::SwServiceArg,
    ElementName::ReferenceBases,
    ElementName::ReferenceBase,
    ElementName::ShortLabel,
    ElementName::PackageRef,
    ElementName::IsDefault,
    ElementName::VariationPoint,
];

/// operation codes
pub mod op {
    pub const CREATE: u32 = 0;
    pub const CREATE_AT: u32 = 1;
    pub const NAMED: u32 = 2;
    pub const NAMED_AT: u32 = 3;
    pub const COPY: u32 = 4;
    pub const COPY_AT: u32 = 5;
    pub const MOVE: u32 = 6;
    pub const MOVE_AT: u32 = 7;
    pub const REMOVE: u32 = 8;
    pub const REMOVE_KIND: u32 = 9;
    pub const RENAME: u32 = 10;
    pub const SET_DATA: u32 = 11;
    pub const REMOVE_DATA: u32 = 12;
    pub const INSERT_CHAR_ITEM: u32 = 13;
    pub const REMOVE_CHAR_ITEM: u32 = 14;
    pub const SET_ATTR: u32 = 15;
    pub const REMOVE_ATTR: u32 = 16;
    pub const SET_REF: u32 = 17;
    pub const SET_COMMENT: u32 = 18;
    pub const SORT: u32 = 19;
    pub const CREATE_FILE: u32 = 20;
    pub const REMOVE_FILE: u32 = 21;
    pub const ADD_TO_FILE: u32 = 22;
    pub const REMOVE_FROM_FILE: u32 = 23;
    pub const SET_FILENAME: u32 = 24;
    pub const SET_VERSION: u32 = 25;
    pub const LOAD: u32 = 26;
    pub const DUPLICATE: u32 = 27;
    pub const GET_OR_CREATE: u32 = 28;
    /// copy into ANOTHER model (used by C13 to reach cross-version copies)
    pub const COPY_X: u32 = 29;
    pub const NOPS: u32 = 30;
    pub const NAMES: [&str; 30] = [
        "create", "create_at", "named", "named_at", "copy", "copy_at", "move", "move_at", "remove", "remove_kind", "rename", "set_data", "remove_data", "insert_char_item", "remove_char_item", "set_attr",
        "remove_attr", "set_ref", "set_comment", "sort", "create_file", "remove_file", "add_to_file", "remove_from_file", "set_filename", "set_version", "load", "duplicate", "get_or_create", "copy_x",
    ];
}

#[derive(Clone, Copy, Debug, PartialEq, Eq)]
pub struct Op {
    pub code: u32,
    pub a: u32,
    pub b: u32,
    pub c: u32,
    pub d: u32,
}

impl Op {
    pub fn to_json(&self) -> Value {
        json!([self.code, self.a, self.b, self.c, self.d])
    }
    pub fn from_json(v: &Value) -> Option<Op> {
        let a = v.as_array()?;
        let g = |i: usize| a.get(i).and_then(|x| x.as_u64()).unwrap_or(0) as u32;
        Some(Op { code: g(0), a: g(1), b: g(2), c: g(3), d: g(4) })
    }
}

pub fn ops_to_json(ops: &[Op]) -> Value {
    Value::Array(ops.iter().map(|o| o.to_json()).collect())
}
pub fn ops_from_json(v: &Value) -> Vec<Op> {
    v.as_array().map(|a| a.iter().filter_map(Op::from_json).collect()).unwrap_or_default()
}

/// weights per op code; a strategy for one op
pub fn op_strategy(weights: &[(u32, u32)]) -> impl Strategy<Value = Op> {
    let codes: Vec<u32> = weights.iter().flat_map(|(c, w)| std::iter::repeat(*c).take(*w as usize)).collect();
    (proptest::sample::select(codes), any::<u32>(), any::<u32>(), any::<u32>(), any::<u32>()).prop_map(|(code, a, b, c, d)| Op { code, a, b, c, d })
}

pub fn default_weights() -> Vec<(u32, u32)> {
    use op::*;
    vec![
        (CREATE, 10), (CREATE_AT, 4), (NAMED, 12), (NAMED_AT, 4), (COPY, 5), (COPY_AT, 2), (MOVE, 6), (MOVE_AT, 3), (REMOVE, 6), (REMOVE_KIND, 2), (RENAME, 6), (SET_DATA, 8), (REMOVE_DATA, 2),
        (INSERT_CHAR_ITEM, 2), (REMOVE_CHAR_ITEM, 1), (SET_ATTR, 4), (REMOVE_ATTR, 1), (SET_REF, 6), (SET_COMMENT, 1), (SORT, 2), (CREATE_FILE, 2), (REMOVE_FILE, 1), (ADD_TO_FILE, 2), (REMOVE_FROM_FILE, 2),
        (SET_FILENAME, 1), (SET_VERSION, 1), (LOAD, 2), (DUPLICATE, 1), (GET_OR_CREATE, 2),
    ]
}

pub fn pick(n: usize, r: u32) -> usize {
    if n == 0 {
        0
    } else {
        ((r as u64 * n as u64) >> 32) as usize
    }
}

// ---------------------------------------------------------------------------------------------
// documents the LOAD op can use

pub const FIXTURE_DOC: &str = r#"<?xml version="1.0" encoding="utf-8"?>
<AUTOSAR xsi:schemaLocation="http://autosar.org/schema/r4.0 AUTOSAR_00050.xsd" xmlns="http://autosar.org/schema/r4.0" xmlns:xsi="http://www.w3.org/2001/XMLSchema-instance">
<AR-PACKAGES>
<AR-PACKAGE><SHORT-NAME>a</SHORT-NAME>
 <ELEMENTS>
  <SYSTEM><SHORT-NAME>a1</SHORT-NAME>
   <FIBEX-ELEMENTS>
    <FIBEX-ELEMENT-REF-CONDITIONAL><FIBEX-ELEMENT-REF DEST="I-SIGNAL">/pkg1/x9</FIBEX-ELEMENT-REF></FIBEX-ELEMENT-REF-CONDITIONAL>
    <FIBEX-ELEMENT-REF-CONDITIONAL><FIBEX-ELEMENT-REF DEST="I-SIGNAL">/pkg10/x9</FIBEX-ELEMENT-REF></FIBEX-ELEMENT-REF-CONDITIONAL>
    <FIBEX-ELEMENT-REF-CONDITIONAL><FIBEX-ELEMENT-REF DEST="I-SIGNAL">/pkg1/nothing</FIBEX-ELEMENT-REF></FIBEX-ELEMENT-REF-CONDITIONAL>
    <FIBEX-ELEMENT-REF-CONDITIONAL><FIBEX-ELEMENT-REF DEST="FIBEX-ELEMENT">/pkg10/a1b</FIBEX-ELEMENT-REF></FIBEX-ELEMENT-REF-CONDITIONAL>
   </FIBEX-ELEMENTS>
  </SYSTEM>
  <COMPU-METHOD><SHORT-NAME>b</SHORT-NAME><UNIT-REF DEST="UNIT">/a/x10</UNIT-REF>
   <COMPU-INTERNAL-TO-PHYS><COMPU-SCALES>
    <COMPU-SCALE><LOWER-LIMIT>0</LOWER-LIMIT><COMPU-CONST><VT>off</VT></COMPU-CONST></COMPU-SCALE>
    <COMPU-SCALE><LOWER-LIMIT>1</LOWER-LIMIT><COMPU-CONST><VT>on</VT></COMPU-CONST></COMPU-SCALE>
   </COMPU-SCALES></COMPU-INTERNAL-TO-PHYS>
  </COMPU-METHOD>
  <UNIT><SHORT-NAME>x10</SHORT-NAME></UNIT>
 </ELEMENTS>
</AR-PACKAGE>
<AR-PACKAGE><SHORT-NAME>pkg1</SHORT-NAME>
 <ELEMENTS>
  <I-SIGNAL><SHORT-NAME>x9</SHORT-NAME><SYSTEM-SIGNAL-REF DEST="SYSTEM-SIGNAL">/pkg1/a2</SYSTEM-SIGNAL-REF></I-SIGNAL>
  <SYSTEM-SIGNAL><SHORT-NAME>a2</SHORT-NAME></SYSTEM-SIGNAL>
  <SYSTEM-SIGNAL><SHORT-NAME>a2_1</SHORT-NAME></SYSTEM-SIGNAL>
 </ELEMENTS>
 <AR-PACKAGES><AR-PACKAGE><SHORT-NAME>a</SHORT-NAME></AR-PACKAGE></AR-PACKAGES>
</AR-PACKAGE>
<AR-PACKAGE><SHORT-NAME>pkg10</SHORT-NAME>
 <ELEMENTS>
  <I-SIGNAL><SHORT-NAME>x9</SHORT-NAME><DESC><L-2 L="EN">some <TT TYPE="SGMLTAG">tag</TT> text</L-2></DESC></I-SIGNAL>
  <I-SIGNAL><SHORT-NAME BLUEPRINT-VALUE="bp">x9_1</SHORT-NAME><SYSTEM-SIGNAL-REF DEST="SYSTEM-SIGNAL">/pkg1/a2_1</SYSTEM-SIGNAL-REF></I-SIGNAL>
  <ECU-INSTANCE><SHORT-NAME>a1b</SHORT-NAME></ECU-INSTANCE>
 </ELEMENTS>
</AR-PACKAGE>
<AR-PACKAGE><SHORT-NAME>e</SHORT-NAME></AR-PACKAGE>
<AR-PACKAGE><SHORT-NAME>f</SHORT-NAME><ELEMENTS></ELEMENTS><AR-PACKAGES><AR-PACKAGE><SHORT-NAME>x9</SHORT-NAME></AR-PACKAGE><AR-PACKAGE><SHORT-NAME>a2</SHORT-NAME></AR-PACKAGE></AR-PACKAGES></AR-PACKAGE>
<AR-PACKAGE><SHORT-NAME>d</SHORT-NAME>
 <ELEMENTS>
  <SERVICE-SW-COMPONENT-TYPE><SHORT-NAME>Dem</SHORT-NAME><INTERNAL-BEHAVIORS><SWC-INTERNAL-BEHAVIOR><SHORT-NAME>IB</SHORT-NAME>
   <SERVICE-DEPENDENCYS><SWC-SERVICE-DEPENDENCY><SHORT-NAME>Dep</SHORT-NAME><SERVICE-NEEDS>
    <DIAGNOSTIC-EVENT-NEEDS><SHORT-NAME>Needs</SHORT-NAME>
     <DIAG-EVENT-DEBOUNCE-ALGORITHM><DIAG-EVENT-DEBOUNCE-COUNTER-BASED><SHORT-NAME>Debounce</SHORT-NAME><COUNTER-FAILED-THRESHOLD>10</COUNTER-FAILED-THRESHOLD></DIAG-EVENT-DEBOUNCE-COUNTER-BASED></DIAG-EVENT-DEBOUNCE-ALGORITHM>
    </DIAGNOSTIC-EVENT-NEEDS>
   </SERVICE-NEEDS></SWC-SERVICE-DEPENDENCY></SERVICE-DEPENDENCYS>
  </SWC-INTERNAL-BEHAVIOR></INTERNAL-BEHAVIORS></SERVICE-SW-COMPONENT-TYPE>
 </ELEMENTS>
</AR-PACKAGE>
</AR-PACKAGES></AUTOSAR>"#;

/// a 4.0.1 document (loaded leniently) in which CAN-TP-ADDRESS / CAN-TP-CHANNEL carry a SHORT-NAME although their types are
/// named only from 4.0.2 on: identifiable for the library (path, index entry, reference target) whatever the file's version says
pub const FIXTURE_DOC_401: &str = r#"<?xml version="1.0" encoding="utf-8"?>
<AUTOSAR xsi:schemaLocation="http://autosar.org/schema/r4.0 AUTOSAR_4-0-1.xsd" xmlns="http://autosar.org/schema/r4.0" xmlns:xsi="http://www.w3.org/2001/XMLSchema-instance">
<AR-PACKAGES>
<AR-PACKAGE><SHORT-NAME>a</SHORT-NAME>
 <ELEMENTS>
  <CAN-TP-CONFIG><SHORT-NAME>a1</SHORT-NAME>
   <TP-ADDRESSS>
    <CAN-TP-ADDRESS><SHORT-NAME>x9</SHORT-NAME><TP-ADDRESS>1</TP-ADDRESS></CAN-TP-ADDRESS>
    <CAN-TP-ADDRESS><SHORT-NAME>x10</SHORT-NAME><TP-ADDRESS>2</TP-ADDRESS></CAN-TP-ADDRESS>
   </TP-ADDRESSS>
   <TP-CHANNELS>
    <CAN-TP-CHANNEL><SHORT-NAME>b</SHORT-NAME><CHANNEL-ID>1</CHANNEL-ID></CAN-TP-CHANNEL>
   </TP-CHANNELS>
   <TP-NODES>
    <CAN-TP-NODE><SHORT-NAME>a2</SHORT-NAME><TP-ADDRESS-REF DEST="CAN-TP-ADDRESS">/a/a1/x9</TP-ADDRESS-REF></CAN-TP-NODE>
    <CAN-TP-NODE><SHORT-NAME>a2_1</SHORT-NAME><TP-ADDRESS-REF DEST="CAN-TP-ADDRESS">/a/a1/x10</TP-ADDRESS-REF></CAN-TP-NODE>
   </TP-NODES>
  </CAN-TP-CONFIG>
 </ELEMENTS>
</AR-PACKAGE>
<AR-PACKAGE><SHORT-NAME>pkg1</SHORT-NAME>
 <ELEMENTS>
  <CAN-TP-CONFIG><SHORT-NAME>x9</SHORT-NAME>
   <TP-ADDRESSS>
    <CAN-TP-ADDRESS><SHORT-NAME>a1b</SHORT-NAME><TP-ADDRESS>3</TP-ADDRESS></CAN-TP-ADDRESS>
   </TP-ADDRESSS>
   <TP-NODES>
    <CAN-TP-NODE><SHORT-NAME>a2</SHORT-NAME><TP-ADDRESS-REF DEST="CAN-TP-ADDRESS">/a/a1/x9</TP-ADDRESS-REF></CAN-TP-NODE>
    <CAN-TP-NODE><SHORT-NAME>e</SHORT-NAME><TP-ADDRESS-REF DEST="CAN-TP-ADDRESS">/pkg1/x9/a1b</TP-ADDRESS-REF></CAN-TP-NODE>
    <CAN-TP-NODE><SHORT-NAME>f</SHORT-NAME><TP-ADDRESS-REF DEST="CAN-TP-ADDRESS">/pkg10/a1/x9</TP-ADDRESS-REF></CAN-TP-NODE>
   </TP-NODES>
  </CAN-TP-CONFIG>
 </ELEMENTS>
</AR-PACKAGE>
<AR-PACKAGE><SHORT-NAME>pkg10</SHORT-NAME><ELEMENTS></ELEMENTS></AR-PACKAGE>
<AR-PACKAGE><SHORT-NAME>e</SHORT-NAME></AR-PACKAGE>
</AR-PACKAGES></AUTOSAR>"#;

/// second view: shares /a and /pkg1, adds elements (mergeable with FIXTURE_DOC)
pub const FIXTURE_DOC_B: &str = r#"<?xml version="1.0" encoding="utf-8"?>
<AUTOSAR xsi:schemaLocation="http://autosar.org/schema/r4.0 AUTOSAR_00050.xsd" xmlns="http://autosar.org/schema/r4.0" xmlns:xsi="http://www.w3.org/2001/XMLSchema-instance">
<AR-PACKAGES>
<AR-PACKAGE><SHORT-NAME>a</SHORT-NAME>
 <ELEMENTS>
  <UNIT><SHORT-NAME>x1a</SHORT-NAME></UNIT>
  <UNIT><SHORT-NAME>x10</SHORT-NAME></UNIT>
 </ELEMENTS>
</AR-PACKAGE>
<AR-PACKAGE><SHORT-NAME>b</SHORT-NAME>
 <ELEMENTS>
  <SYSTEM-SIGNAL><SHORT-NAME>a1</SHORT-NAME></SYSTEM-SIGNAL>
  <I-SIGNAL><SHORT-NAME>a10</SHORT-NAME><SYSTEM-SIGNAL-REF DEST="SYSTEM-SIGNAL">/b/a1</SYSTEM-SIGNAL-REF></I-SIGNAL>
 </ELEMENTS>
</AR-PACKAGE>
</AR-PACKAGES></AUTOSAR>"#;

/// conflicts with FIXTURE_DOC: /a/b is a UNIT here but a COMPU-METHOD there (overlap), found late
pub const FIXTURE_DOC_OVERLAP: &str = r#"<?xml version="1.0" encoding="utf-8"?>
<AUTOSAR xsi:schemaLocation="http://autosar.org/schema/r4.0 AUTOSAR_00050.xsd" xmlns="http://autosar.org/schema/r4.0" xmlns:xsi="http://www.w3.org/2001/XMLSchema-instance">
<AR-PACKAGES>
<AR-PACKAGE><SHORT-NAME>zz</SHORT-NAME><ELEMENTS><UNIT><SHORT-NAME>u</SHORT-NAME></UNIT></ELEMENTS></AR-PACKAGE>
<AR-PACKAGE><SHORT-NAME>a</SHORT-NAME>
 <ELEMENTS>
  <UNIT><SHORT-NAME>b</SHORT-NAME></UNIT>
 </ELEMENTS>
</AR-PACKAGE>
</AR-PACKAGES></AUTOSAR>"#;

/// diverges from FIXTURE_DOC inside a non-splittable element (merge conflict at depth)
pub const FIXTURE_DOC_DIVERGE: &str = r#"<?xml version="1.0" encoding="utf-8"?>
<AUTOSAR xsi:schemaLocation="http://autosar.org/schema/r4.0 AUTOSAR_00050.xsd" xmlns="http://autosar.org/schema/r4.0" xmlns:xsi="http://www.w3.org/2001/XMLSchema-instance">
<AR-PACKAGES>
<AR-PACKAGE><SHORT-NAME>q</SHORT-NAME><ELEMENTS><UNIT><SHORT-NAME>u</SHORT-NAME></UNIT></ELEMENTS></AR-PACKAGE>
<AR-PACKAGE><SHORT-NAME>a</SHORT-NAME>
 <ELEMENTS>
  <COMPU-METHOD><SHORT-NAME>b</SHORT-NAME>
   <COMPU-INTERNAL-TO-PHYS><COMPU-SCALES>
    <COMPU-SCALE><SHORT-LABEL>other</SHORT-LABEL><LOWER-LIMIT>0</LOWER-LIMIT><COMPU-RATIONAL-COEFFS><COMPU-NUMERATOR><V>1</V></COMPU-NUMERATOR></COMPU-RATIONAL-COEFFS></COMPU-SCALE>
   </COMPU-SCALES></COMPU-INTERNAL-TO-PHYS>
  </COMPU-METHOD>
  <SYSTEM><SHORT-NAME>a1</SHORT-NAME></SYSTEM>
  <UNIT><SHORT-NAME>zz9</SHORT-NAME></UNIT>
 </ELEMENTS>
</AR-PACKAGE>
</AR-PACKAGES></AUTOSAR>"#;

pub const DOC_SYNTAX_ERROR: &str = "<?xml version=\"1.0\" encoding=\"utf-8\"?>\n<AUTOSAR xsi:schemaLocation=\"http://autosar.org/schema/r4.0 AUTOSAR_00050.xsd\" xmlns=\"http://autosar.org/schema/r4.0\" xmlns:xsi=\"http://www.w3.org/2001/XMLSchema-instance\"><AR-PACKAGES><AR-PACKAGE><SHORT-NAME>late</SHORT-NAME><ELEMENTS><UNIT><SHORT-NAME>u</SHORT-NAME></UNIT></ELEMENTS></AR-PACKAGE><AR-PACKAGE><SHORT-NAME>e";

pub const DOC_PARSER_ERROR_LATE: &str = r#"<?xml version="1.0" encoding="utf-8"?>
<AUTOSAR xsi:schemaLocation="http://autosar.org/schema/r4.0 AUTOSAR_00050.xsd" xmlns="http://autosar.org/schema/r4.0" xmlns:xsi="http://www.w3.org/2001/XMLSchema-instance">
<AR-PACKAGES>
<AR-PACKAGE><SHORT-NAME>late</SHORT-NAME><ELEMENTS><UNIT><SHORT-NAME>u</SHORT-NAME></UNIT><SYSTEM-SIGNAL><SHORT-NAME>s</SHORT-NAME></SYSTEM-SIGNAL></ELEMENTS></AR-PACKAGE>
<AR-PACKAGE><SHORT-NAME>late2</SHORT-NAME><ELEMENTS><BOGUS/></ELEMENTS></AR-PACKAGE>
</AR-PACKAGES></AUTOSAR>"#;

pub const DOCS: &[&str] = &[FIXTURE_DOC, FIXTURE_DOC_B, FIXTURE_DOC_OVERLAP, FIXTURE_DOC_DIVERGE, DOC_SYNTAX_ERROR, DOC_PARSER_ERROR_LATE];

// ---------------------------------------------------------------------------------------------

pub struct FileH {
    pub model: usize,
    pub file: ArxmlFile,
}

pub struct World {
    pub models: Vec<AutosarModel>,
    pub files: Vec<FileH>,
    pub elems: Vec<Element>,
    pub ids: HashMap<Element, usize>,
    /// per model: preorder (element id, depth)
    pub live: Vec<Vec<(usize, usize)>>,
    pub live_set: HashSet<usize>,
    /// every identifiable path that ever existed (ghost-path probes)
    pub ghost_paths: HashSet<String>,
    /// parent id per live element (from the last rescan)
    pub parent_of: HashMap<usize, usize>,
    /// the call in progress (description, operand relation, op code): survives a panic of the call
    pub pending: Option<(String, &'static str, u32)>,
    pub log: Vec<String>,
    pub file_counter: usize,
    /// exclusion of known hangs etc. is decided by the caller
    pub audit_mode: bool,
}

#[derive(Debug, Clone)]
pub struct OpResult {
    pub ok: bool,
    /// error variant name (first word of the Debug form)
    pub err: Option<String>,
    pub skipped: bool,
    /// index of the model the call went to (for failed-call frame conditions)
    pub model: usize,
    pub desc: String,
    pub is_load: bool,
    /// relation between the two element operands of copy / move / remove / set_ref (computed on the pre-state)
    pub rel: &'static str,
}

pub fn err_variant(e: &AutosarDataError) -> String {
    let d = format!("{:?}", e);
    d.chars().take_while(|c| c.is_alphanumeric()).collect()
}

impl World {
    pub fn new(nmodels: usize) -> World {
        let mut w = World {
            models: vec![],
            files: vec![],
            elems: vec![],
            ids: HashMap::new(),
            live: vec![],
            live_set: HashSet::new(),
            ghost_paths: HashSet::new(),
            parent_of: HashMap::new(),
            pending: None,
            log: vec![],
            file_counter: 0,
            audit_mode: false,
        };
        for _ in 0..nmodels {
            w.models.push(AutosarModel::new());
        }
        w.rescan();
        w
    }

    /// fixture: model 0 loaded with FIXTURE_DOC (file 0), optional empty second model with a file
    pub fn fixture(kind: u32) -> World {
        if kind >= 100 {
            // lenient load of the 4.0.1 document (version-dependently named elements); odd: plus a second 4.0.1 model
            let mut w = World::new(if kind % 2 == 1 { 2 } else { 1 });
            let (f, _) = w.models[0].load_buffer(FIXTURE_DOC_401.as_bytes(), "base401.arxml", false).expect("4.0.1 fixture loads leniently");
            w.files.push(FileH { model: 0, file: f });
            if w.models.len() > 1 {
                let f = w.models[1].create_file("other401.arxml", AutosarVersion::Autosar_4_0_1).unwrap();
                w.files.push(FileH { model: 1, file: f });
                let _ = w.models[1].root_element().create_sub_element(ElementName::ArPackages).and_then(|p| p.create_named_sub_element(ElementName::ArPackage, "a")).and_then(|p| p.create_sub_element(ElementName::Elements));
            }
            w.rescan();
            return w;
        }
        let mut w = World::new(if kind % 2 == 1 { 2 } else { 1 });
        match kind % 4 {
            0 | 1 => {
                let (f, _) = w.models[0].load_buffer(FIXTURE_DOC.as_bytes(), "base.arxml", true).expect("fixture loads");
                w.files.push(FileH { model: 0, file: f });
            }
            _ => {
                let f = w.models[0].create_file("base.arxml", AutosarVersion::Autosar_00050).unwrap();
                w.files.push(FileH { model: 0, file: f });
            }
        }
        if w.models.len() > 1 {
            let f = w.models[1].create_file("other.arxml", AutosarVersion::Autosar_00050).unwrap();
            w.files.push(FileH { model: 1, file: f });
            let _ = w.models[1].root_element().create_sub_element(ElementName::ArPackages).and_then(|p| p.create_named_sub_element(ElementName::ArPackage, "a"));
        }
        w.rescan();
        w
    }

    /// fixtures with version variety (C07, C13): kinds 0..4 as fixture(); 4..8 empty model with a file of an older
    /// version (+ second model of version 00050 when odd); 8..12 loaded fixture document + second model of an older version
    pub fn fixture_v(kind: u32) -> World {
        const OLD: [AutosarVersion; 4] = [AutosarVersion::Autosar_4_0_1, AutosarVersion::Autosar_4_2_2, AutosarVersion::Autosar_00046, AutosarVersion::Autosar_00048];
        if kind < 4 {
            return World::fixture(kind);
        }
        let old = OLD[(kind as usize / 2) % 4];
        if kind >= 12 {
            // ONE model with files of two versions: base.arxml (00050, the fixture document) and old.arxml (older version)
            // holding the package /o with an ELEMENTS container of its own; every other package is in base.arxml only
            let old = OLD[kind as usize % 4];
            let mut w = World::new(1);
            let (f, _) = w.models[0].load_buffer(FIXTURE_DOC.as_bytes(), "base.arxml", true).expect("fixture loads");
            w.files.push(FileH { model: 0, file: f.clone() });
            let fo = w.models[0].create_file("old.arxml", old).unwrap();
            w.files.push(FileH { model: 0, file: fo.clone() });
            if let Some(pk) = w.models[0].root_element().get_sub_element(ElementName::ArPackages) {
                let _ = pk.add_to_file(&fo);
                if let Ok(o) = pk.create_named_sub_element(ElementName::ArPackage, "o") {
                    let _ = o.remove_from_file(&f);
                    let _ = o.create_sub_element(ElementName::Elements).and_then(|e| e.create_named_sub_element(ElementName::SystemSignal, "s_old"));
                }
                for k in pk.sub_elements().filter(|k| k.item_name().as_deref() != Some("o")) {
                    let _ = k.remove_from_file(&fo);
                }
            }
            w.rescan();
            return w;
        }
        let mut w = World::new(2);
        if kind < 8 {
            let f = w.models[0].create_file("old.arxml", old).unwrap();
            w.files.push(FileH { model: 0, file: f });
            let f = w.models[1].create_file("new.arxml", if kind % 2 == 1 { AutosarVersion::Autosar_00050 } else { old }).unwrap();
            w.files.push(FileH { model: 1, file: f });
            if kind % 2 == 0 {
                let _ = w.models[1].root_element().create_sub_element(ElementName::ArPackages).and_then(|p| p.create_named_sub_element(ElementName::ArPackage, "a"));
            } else {
                let _ = w.models[1].load_buffer(FIXTURE_DOC_B.as_bytes(), "b.arxml", true).map(|(f, _)| w.files.push(FileH { model: 1, file: f }));
                // two files in model 1 now: drop the empty one so that the model stays single-file
                let first = w.files[1].file.clone();
                w.models[1].remove_file(&first);
            }
        } else {
            let (f, _) = w.models[0].load_buffer(FIXTURE_DOC.as_bytes(), "base.arxml", true).expect("fixture loads");
            w.files.push(FileH { model: 0, file: f });
            let f = w.models[1].create_file("old.arxml", old).unwrap();
            w.files.push(FileH { model: 1, file: f });
            let _ = w.models[1].root_element().create_sub_element(ElementName::ArPackages).and_then(|p| p.create_named_sub_element(ElementName::ArPackage, "a")).and_then(|p| p.create_sub_element(ElementName::Elements));
        }
        w.rescan();
        w
    }

    pub fn id_of(&mut self, e: &Element) -> usize {
        if let Some(i) = self.ids.get(e) {
            return *i;
        }
        let i = self.elems.len();
        self.elems.push(e.clone());
        self.ids.insert(e.clone(), i);
        i
    }

    /// own recursion over content(): recompute the live preorder of every model and register new handles
    pub fn rescan(&mut self) {
        self.live.clear();
        self.live_set.clear();
        self.parent_of.clear();
        let models: Vec<AutosarModel> = self.models.clone();
        for m in &models {
            let mut pre = vec![];
            let root = m.root_element();
            let mut stack: Vec<(Element, usize)> = vec![(root, 0)];
            let mut guard = 0usize;
            while let Some((e, depth)) = stack.pop() {
                guard += 1;
                if guard > 200_000 {
                    break;
                }
                let id = self.id_of(&e);
                pre.push((id, depth));
                self.live_set.insert(id);
                let kids: Vec<Element> = e.content().filter_map(|c| c.unwrap_element()).collect();
                for k in kids.into_iter().rev() {
                    let kid = self.id_of(&k);
                    self.parent_of.insert(kid, id);
                    stack.push((k, depth + 1));
                }
            }
            self.live.push(pre);
        }
    }

    pub fn stale_ids(&self) -> Vec<usize> {
        (0..self.elems.len()).filter(|i| !self.live_set.contains(i)).collect()
    }

    fn live_ids(&self) -> Vec<usize> {
        self.live.iter().flat_map(|l| l.iter().map(|(i, _)| *i)).collect()
    }

    /// resolve an element selector; bit 0 of `flags` (1 in 16) draws from the stale handles
    fn pick_elem(&self, sel: u32, flags: u32) -> Option<usize> {
        let stale = self.stale_ids();
        if flags % 16 == 0 && !stale.is_empty() {
            return Some(stale[pick(stale.len(), sel)]);
        }
        let live = self.live_ids();
        if live.is_empty() {
            None
        } else {
            Some(live[pick(live.len(), sel)])
        }
    }

    /// prefer elements satisfying `pred` (3 of 4 times)
    fn pick_elem_where(&self, sel: u32, flags: u32, pred: impl Fn(&Element) -> bool) -> Option<usize> {
        if flags % 4 != 3 {
            let c: Vec<usize> = self.live_ids().into_iter().filter(|i| pred(&self.elems[*i])).collect();
            if !c.is_empty() {
                return Some(c[pick(c.len(), sel)]);
            }
        }
        self.pick_elem(sel, flags)
    }

    pub fn model_of_pub(&self, id: usize) -> usize {
        self.model_of(id)
    }

    /// the element a rename op will resolve to
    pub fn peek_rename(&self, o: &Op) -> Option<usize> {
        self.pick_elem_where(o.a, o.d, |e| e.is_identifiable())
    }

    /// the (element, file) an add_to_file / remove_from_file op will resolve to
    pub fn peek_elem_file(&self, o: &Op) -> Option<(usize, usize)> {
        Some((self.pick_elem(o.a, o.d)?, self.pick_file(o.b)?))
    }

    /// cross-model copy: the source is an element with content, the destination a parent in another model that lists its name
    pub fn peek_copy_x(&self, o: &Op) -> Option<(usize, usize)> {
        let sid = self.pick_elem_where(o.b, 0, |e| e.element_name() != ElementName::Autosar && e.element_name() != ElementName::ShortName)?;
        let ms = self.model_of(sid);
        let sname = self.elems[sid].element_name();
        let si = SpecIndex::get();
        let cands: Vec<usize> = self
            .live
            .iter()
            .enumerate()
            .filter(|(mi, _)| *mi != ms)
            .flat_map(|(_, l)| l.iter().map(|(i, _)| *i))
            .filter(|i| si.types[si.id_of(self.elems[*i].element_type())].subs.iter().any(|s| s.name == sname))
            .collect();
        if cands.is_empty() {
            return None;
        }
        Some((cands[pick(cands.len(), o.a)], sid))
    }

    /// the (destination parent, source) a copy / move op resolves to (used by apply and by the exclusion predicates)
    pub fn peek_copy_move(&self, o: &Op) -> Option<(usize, usize)> {
        if o.code == op::COPY_X {
            return self.peek_copy_x(o);
        }
        // one in five: the source is a non-identifiable container that holds identifiable elements (ELEMENTS, AR-PACKAGES, ...)
        let sid = if o.c % 5 == 0 {
            self.pick_elem_where(o.b, 0, |e| !e.is_identifiable() && e.element_name() != ElementName::Autosar && e.sub_elements().any(|k| k.is_identifiable()))?
        } else {
            self.pick_elem(o.b, o.d.rotate_left(4))?
        };
        let sname = self.elems[sid].element_name();
        let si = SpecIndex::get();
        let pid = self.pick_elem_where(o.a, o.d, |e| si.types[si.id_of(e.element_type())].subs.iter().any(|s| s.name == sname) && e.get_sub_element(sname).is_none())
            .or_else(|| self.pick_elem_where(o.a, o.d, |e| si.types[si.id_of(e.element_type())].subs.iter().any(|s| s.name == sname)))?;
        Some((pid, sid))
    }

    fn model_of(&self, id: usize) -> usize {
        for (mi, l) in self.live.iter().enumerate() {
            if l.iter().any(|(i, _)| *i == id) {
                return mi;
            }
        }
        0
    }

    fn version_of_model(&self, mi: usize) -> AutosarVersion {
        self.models[mi].files().map(|f| f.version()).min().unwrap_or(AutosarVersion::LATEST)
    }

    fn pick_kind(&self, parent: &Element, mi: usize, sel: u32) -> ElementName {
        let si = SpecIndex::get();
        let vbit = self.version_of_model(mi) as u32;
        let tid = si.id_of(parent.element_type());
        let mut listed: Vec<ElementName> = vec![];
        for s in &si.types[tid].subs {
            if s.mask & vbit != 0 && !listed.contains(&s.name) {
                listed.push(s.name);
            }
        }
        let r = sel % 20;
        let sel2 = sel.rotate_left(13);
        if r == 0 || listed.is_empty() {
            // arbitrary element name (mostly invalid here)
            return si.element_names[pick(si.element_names.len(), sel2)];
        }
        let pal: Vec<ElementName> = listed.iter().copied().filter(|n| PALETTE.contains(n)).collect();
        if r < 15 && !pal.is_empty() {
            pal[pick(pal.len(), sel2)]
        } else {
            listed[pick(listed.len(), sel2)]
        }
    }

    fn pick_name(sel: u32) -> &'static str {
        if sel % 24 == 0 {
            if sel % 7 == 3 {
                // conforms to the identifier pattern but is longer than the 128 characters the specification allows
                return if sel % 2 == 0 { TOO_LONG_129 } else { TOO_LONG_200 };
            }
            BAD_NAMES[pick(BAD_NAMES.len(), sel.rotate_left(9))]
        } else {
            NAMES[pick(NAMES.len(), sel.rotate_left(9))]
        }
    }

    fn known_paths(&self, mi: usize) -> Vec<String> {
        let mut v: Vec<String> = self.models[mi].identifiable_elements().map(|(p, _)| p).collect();
        v.sort();
        v
    }

    fn ref_text(&self, mi: usize, sel: u32) -> String {
        const GHOST: &[&str] = &["/a", "/a/b", "/pkg1", "/pkg10", "/pkg1/x9", "/pkg10/x9", "/a/x10", "/b/a1", "/a1/x9", "/nonexistent/p", "/pkg1/a", "/a/a1", "/pkg1/x9/a", "/b",
            // paths that elements of the fixture get when they are moved to a neighbouring package or renamed to a pool name
            // relative paths (the REF pattern allows them; they never resolve)
            "a/b", "pkg1/x9", "x9",
            "/a/x9", "/a/a2", "/pkg10/a2", "/pkg1/x10", "/pkg10/x10", "/e/x9", "/pkg1/b", "/pkg1/a1", "/pkg1/x1a", "/pkg10/a1", "/a/pkg1", "/f/x9_1"];
        let known = self.known_paths(mi);
        if sel % 3 == 0 || known.is_empty() {
            GHOST[pick(GHOST.len(), sel.rotate_left(7))].to_string()
        } else {
            known[pick(known.len(), sel.rotate_left(7))].clone()
        }
    }

    fn value_for(&self, e: &Element, mi: usize, sel: u32) -> CharacterData {
        let et: ElementType = e.element_type();
        if et.is_ref() {
            return CharacterData::String(self.ref_text(mi, sel));
        }
        if e.element_name() == ElementName::ShortName {
            return CharacterData::String(Self::pick_name(sel).to_string());
        }
        let version = self.version_of_model(mi);
        let tape: Vec<u32> = (0..12).map(|i| mix(sel as u64, i) as u32).collect();
        let mut t = Tape::new(&tape);
        let mut g = Gen::new(version, &mut t, GenOpts::default());
        match et.chardata_spec() {
            Some(spec) => {
                if sel % 9 == 0 {
                    // out-of-space value
                    match spec {
                        CharacterDataSpec::Enum { .. } => CharacterData::Enum(SpecIndex::get().enum_items[pick(SpecIndex::get().enum_items.len(), sel.rotate_left(5))]),
                        CharacterDataSpec::Pattern { .. } => CharacterData::String("?? not a member ??".into()),
                        CharacterDataSpec::String { max_length: Some(m), .. } => CharacterData::String("x".repeat(m + 1)),
                        CharacterDataSpec::UnsignedInteger => CharacterData::String("-1".into()),
                        CharacterDataSpec::Float => CharacterData::String("abc".into()),
                        _ => CharacterData::UnsignedInteger(7),
                    }
                } else {
                    g.gen_value(spec).map(|v| v.to_cdata()).unwrap_or(CharacterData::String("x".into()))
                }
            }
            None => CharacterData::String("x".into()),
        }
    }

    fn pick_file(&self, sel: u32) -> Option<usize> {
        if self.files.is_empty() {
            None
        } else {
            Some(pick(self.files.len(), sel))
        }
    }

    /// relation of `other` to `this` from own parent links recorded by the last rescan
    pub fn relation(&self, this: usize, other: usize) -> &'static str {
        if this == other {
            return "same";
        }
        let live = |i: usize| self.live_set.contains(&i);
        if !live(this) && !live(other) {
            return "both-stale";
        }
        if !live(other) {
            return "other-stale";
        }
        if !live(this) {
            return "this-stale";
        }
        if self.model_of(this) != self.model_of(other) {
            return "other-model";
        }
        let anc = |mut x: usize, target: usize| -> Option<usize> {
            let mut d = 0;
            while let Some(p) = self.parent_of.get(&x) {
                d += 1;
                if *p == target {
                    return Some(d);
                }
                x = *p;
            }
            None
        };
        match (anc(other, this), anc(this, other)) {
            (Some(1), _) => "other-is-child",
            (Some(_), _) => "other-is-descendant",
            (_, Some(1)) => "other-is-parent",
            (_, Some(_)) => "other-is-ancestor",
            _ => "unrelated",
        }
    }

    fn name_of(&self, id: usize) -> String {
        let e = &self.elems[id];
        let live = self.live_set.contains(&id);
        format!("#{id}{}<{}>", if live { "" } else { "(stale)" }, e.element_name())
    }

    /// Execute one operation. `guard` is consulted before calls that are known to hang without the
    /// audit monitor (self-aliased move / remove); it returns true to skip.
    pub fn apply(&mut self, o: &Op) -> OpResult {
        use op::*;
        let mut res = OpResult { ok: false, err: None, skipped: false, model: 0, desc: String::new(), is_load: false, rel: "" };
        macro_rules! finish {
            ($r:expr, $desc:expr) => {{
                res.desc = $desc;
                self.pending = Some((res.desc.clone(), res.rel, o.code));
                match $r {
                    Ok(_) => res.ok = true,
                    Err(e) => res.err = Some(err_variant(&e)),
                }
            }};
        }
        macro_rules! skip {
            ($desc:expr) => {{
                res.skipped = true;
                res.desc = $desc;
                self.log.push(format!("skip  {}", res.desc));
                return res;
            }};
        }
        match o.code {
            CREATE | CREATE_AT | NAMED | NAMED_AT | GET_OR_CREATE => {
                let Some(pid) = self.pick_elem_where(o.a, o.d, |e| e.content_type() != ContentType::CharacterData) else { skip!("no element".to_string()) };
                let parent = self.elems[pid].clone();
                let mi = self.model_of(pid);
                res.model = mi;
                let kind = self.pick_kind(&parent, mi, o.b);
                let nchildren = parent.content_item_count();
                let pos = pick(nchildren + 2, o.c);
                let name = Self::pick_name(o.c.rotate_left(3));
                match o.code {
                    CREATE => finish!(parent.create_sub_element(kind), format!("{}.create_sub_element({kind})", self.name_of(pid))),
                    CREATE_AT => finish!(parent.create_sub_element_at(kind, pos), format!("{}.create_sub_element_at({kind}, {pos})", self.name_of(pid))),
                    NAMED => finish!(parent.create_named_sub_element(kind, name), format!("{}.create_named_sub_element({kind}, {name:?})", self.name_of(pid))),
                    NAMED_AT => finish!(parent.create_named_sub_element_at(kind, name, pos), format!("{}.create_named_sub_element_at({kind}, {name:?}, {pos})", self.name_of(pid))),
                    _ => {
                        if o.c % 2 == 0 {
                            finish!(parent.get_or_create_sub_element(kind), format!("{}.get_or_create_sub_element({kind})", self.name_of(pid)))
                        } else {
                            finish!(parent.get_or_create_named_sub_element(kind, name), format!("{}.get_or_create_named_sub_element({kind}, {name:?})", self.name_of(pid)))
                        }
                    }
                }
            }
            COPY | COPY_AT | MOVE | MOVE_AT | COPY_X => {
                // destination: prefer parents that list the source's element name
                let Some((pid, sid)) = self.peek_copy_move(o) else { skip!("no element".to_string()) };
                let src = self.elems[sid].clone();
                let parent = self.elems[pid].clone();
                res.model = self.model_of(pid);
                let pos = pick(parent.content_item_count() + 2, o.c);
                res.rel = self.relation(pid, sid);
                if (o.code == MOVE || o.code == MOVE_AT) && !self.audit_mode && pid == sid {
                    skip!(format!("{}.move_element_here(self) [hangs: C12]", self.name_of(pid)));
                }
                match o.code {
                    COPY | COPY_X => finish!(parent.create_copied_sub_element(&src), format!("{}.create_copied_sub_element({})", self.name_of(pid), self.name_of(sid))),
                    COPY_AT => finish!(parent.create_copied_sub_element_at(&src, pos), format!("{}.create_copied_sub_element_at({}, {pos})", self.name_of(pid), self.name_of(sid))),
                    MOVE => finish!(parent.move_element_here(&src), format!("{}.move_element_here({})", self.name_of(pid), self.name_of(sid))),
                    _ => finish!(parent.move_element_here_at(&src, pos), format!("{}.move_element_here_at({}, {pos})", self.name_of(pid), self.name_of(sid))),
                }
            }
            REMOVE => {
                let Some(cid) = self.pick_elem(o.b, o.d) else { skip!("no element".to_string()) };
                let child = self.elems[cid].clone();
                // parent: the real parent (mostly) or an arbitrary element
                let pid = if o.a % 8 != 0 {
                    match no_panic(|| child.parent()) {
                        Ok(Ok(Some(p))) => self.id_of(&p),
                        _ => match self.pick_elem(o.a, o.d.rotate_left(8)) {
                            Some(p) => p,
                            None => skip!("no element".to_string()),
                        },
                    }
                } else {
                    match self.pick_elem(o.a, o.d.rotate_left(8)) {
                        Some(p) => p,
                        None => skip!("no element".to_string()),
                    }
                };
                if pid == cid && !self.audit_mode {
                    skip!(format!("{}.remove_sub_element(self) [hangs: C12]", self.name_of(pid)));
                }
                let parent = self.elems[pid].clone();
                res.model = self.model_of(pid);
                res.rel = self.relation(pid, cid);
                finish!(parent.remove_sub_element(child), format!("{}.remove_sub_element({})", self.name_of(pid), self.name_of(cid)))
            }
            REMOVE_KIND => {
                let Some(pid) = self.pick_elem(o.a, o.d) else { skip!("no element".to_string()) };
                let parent = self.elems[pid].clone();
                let kinds: Vec<ElementName> = parent.sub_elements().map(|e| e.element_name()).collect();
                let kind = if kinds.is_empty() || o.b % 8 == 0 { ElementName::Category } else { kinds[pick(kinds.len(), o.b)] };
                res.model = self.model_of(pid);
                finish!(parent.remove_sub_element_kind(kind), format!("{}.remove_sub_element_kind({kind})", self.name_of(pid)))
            }
            RENAME => {
                let Some(id) = self.pick_elem_where(o.a, o.d, |e| e.is_identifiable()) else { skip!("no element".to_string()) };
                let e = self.elems[id].clone();
                let name = Self::pick_name(o.b);
                res.model = self.model_of(id);
                finish!(e.set_item_name(name), format!("{}.set_item_name({name:?}) [was {:?}]", self.name_of(id), e.item_name()))
            }
            SET_DATA => {
                let Some(id) = self.pick_elem_where(o.a, o.d, |e| e.content_type() != ContentType::Elements) else { skip!("no element".to_string()) };
                let e = self.elems[id].clone();
                let mi = self.model_of(id);
                res.model = mi;
                let v = self.value_for(&e, mi, o.b);
                finish!(e.set_character_data(v.clone()), format!("{}.set_character_data({:?})", self.name_of(id), v))
            }
            REMOVE_DATA => {
                let Some(id) = self.pick_elem_where(o.a, o.d, |e| e.content_type() == ContentType::CharacterData) else { skip!("no element".to_string()) };
                let e = self.elems[id].clone();
                res.model = self.model_of(id);
                finish!(e.remove_character_data(), format!("{}.remove_character_data()", self.name_of(id)))
            }
            INSERT_CHAR_ITEM | REMOVE_CHAR_ITEM => {
                let Some(id) = self.pick_elem_where(o.a, o.d, |e| e.content_type() == ContentType::Mixed) else { skip!("no element".to_string()) };
                let e = self.elems[id].clone();
                res.model = self.model_of(id);
                let pos = pick(e.content_item_count() + 2, o.c);
                if o.code == INSERT_CHAR_ITEM {
                    let text = ["text", "more text", "a<b", "x"][pick(4, o.b)];
                    finish!(e.insert_character_content_item(text, pos), format!("{}.insert_character_content_item({text:?}, {pos})", self.name_of(id)))
                } else {
                    finish!(e.remove_character_content_item(pos), format!("{}.remove_character_content_item({pos})", self.name_of(id)))
                }
            }
            SET_ATTR | REMOVE_ATTR => {
                let Some(id) = self.pick_elem(o.a, o.d) else { skip!("no element".to_string()) };
                let e = self.elems[id].clone();
                let mi = self.model_of(id);
                res.model = mi;
                let si = SpecIndex::get();
                let ti = &si.types[si.id_of(e.element_type())];
                let partial: Vec<&AttrInfo> = ti.attrs.iter().filter(|a| a.mask & ALL_VERSIONS_MASK != ALL_VERSIONS_MASK).collect();
                let attr = if ti.attrs.is_empty() || o.b % 10 == 0 {
                    si.attribute_names[pick(si.attribute_names.len(), o.b.rotate_left(6))]
                } else if o.b % 10 < 4 && !partial.is_empty() {
                    // attributes that exist in some versions only
                    partial[pick(partial.len(), o.b.rotate_left(6))].name
                } else {
                    ti.attrs[pick(ti.attrs.len(), o.b.rotate_left(6))].name
                };
                if e.element_name() == ElementName::Autosar && matches!(attr, AttributeName::xmlns | AttributeName::xmlnsXsi | AttributeName::xsiSchemalocation) {
                    // domain restriction: the three header attributes of the root element are managed by the library
                    skip!(format!("{}.set/remove_attribute({attr}) [header attribute: not generated]", self.name_of(id)));
                }
                if o.code == REMOVE_ATTR {
                    let r = e.remove_attribute(attr);
                    res.ok = r;
                    res.err = if r { None } else { Some("false".into()) };
                    res.desc = format!("{}.remove_attribute({attr}) = {r}", self.name_of(id));
                } else {
                    let version = self.version_of_model(mi);
                    let tape: Vec<u32> = (0..8).map(|i| mix(o.c as u64, i) as u32).collect();
                    let mut t = Tape::new(&tape);
                    let mut g = Gen::new(version, &mut t, GenOpts::default());
                    let v = match e.element_type().find_attribute_spec(attr) {
                        Some(s) if o.c % 7 != 0 => g.gen_value(s.spec).map(|v| v.to_cdata()).unwrap_or(CharacterData::String("x".into())),
                        _ => CharacterData::String("?bad value?".into()),
                    };
                    if o.c % 2 == 0 {
                        finish!(e.set_attribute(attr, v.clone()), format!("{}.set_attribute({attr}, {:?})", self.name_of(id), v))
                    } else {
                        let s = v.to_string();
                        finish!(e.set_attribute_string(attr, &s), format!("{}.set_attribute_string({attr}, {s:?})", self.name_of(id)))
                    }
                }
            }
            SET_REF => {
                let Some(id) = self.pick_elem_where(o.a, o.d, |e| e.is_reference()) else { skip!("no element".to_string()) };
                let Some(tid) = self.pick_elem_where(o.b, o.d.rotate_left(6), |e| e.is_identifiable()) else { skip!("no element".to_string()) };
                let (e, t) = (self.elems[id].clone(), self.elems[tid].clone());
                res.model = self.model_of(id);
                res.rel = self.relation(id, tid);
                let r = e.set_reference_target(&t);
                let mut desc = format!("{}.set_reference_target({})", self.name_of(id), self.name_of(tid));
                // one in three: afterwards DEST is set to another value that is also correct for this target (an abstract base
                // class such as FIBEX-ELEMENT for an ECU-INSTANCE): the reference still resolves and must not be reported
                if r.is_ok() && o.c % 3 == 0 {
                    let vbit = self.version_of_model(self.model_of(id)) as u32;
                    if let Some(CharacterDataSpec::Enum { items }) = e.element_type().find_attribute_spec(AttributeName::Dest).map(|s| s.spec) {
                        let cur = e.attribute_value(AttributeName::Dest);
                        let alts: Vec<autosar_data::EnumItem> = items.iter().filter(|(i, m)| m & vbit != 0 && t.element_type().verify_reference_dest(*i) && Some(CharacterData::Enum(*i)) != cur).map(|(i, _)| *i).collect();
                        if std::env::var("VERIF_DEBUG_C05").is_ok() {
                            eprintln!("C05DEBUG alts={} ref={} target={}", alts.len(), e.element_name(), t.element_name());
                        }
                        if !alts.is_empty() {
                            let it = alts[pick(alts.len(), o.c.rotate_left(8))];
                            let r2 = e.set_attribute(AttributeName::Dest, CharacterData::Enum(it));
                            if std::env::var("VERIF_DEBUG_C05").is_ok() {
                                eprintln!("C05DEBUG set DEST {} -> {:?}", it.to_str(), r2.as_ref().map_err(|e| e.to_string()));
                            }
                            if r2.is_ok() {
                                desc.push_str(&format!(" + set_attribute(DEST, {})", it.to_str()));
                            }
                        }
                    }
                }
                finish!(r, desc)
            }
            SET_COMMENT => {
                let Some(id) = self.pick_elem(o.a, o.d) else { skip!("no element".to_string()) };
                let e = self.elems[id].clone();
                res.model = self.model_of(id);
                let c = [None, Some("c1".to_string()), Some("a -- b".to_string()), Some("".to_string())][pick(4, o.b)].clone();
                e.set_comment(c.clone());
                res.ok = true;
                res.desc = format!("{}.set_comment({:?})", self.name_of(id), c);
            }
            SORT => {
                if o.b % 2 == 0 {
                    let mi = pick(self.models.len(), o.a);
                    res.model = mi;
                    self.models[mi].sort();
                    res.desc = format!("model{mi}.sort()");
                } else {
                    let Some(id) = self.pick_elem(o.a, o.d) else { skip!("no element".to_string()) };
                    res.model = self.model_of(id);
                    self.elems[id].sort();
                    res.desc = format!("{}.sort()", self.name_of(id));
                }
                res.ok = true;
            }
            CREATE_FILE => {
                let mi = pick(self.models.len(), o.a);
                res.model = mi;
                self.file_counter += 1;
                let name = if o.b % 6 == 0 && !self.files.is_empty() { self.files[pick(self.files.len(), o.b.rotate_left(4))].file.filename().to_string_lossy().to_string() } else { format!("f{}.arxml", self.file_counter) };
                let version = if o.c % 4 == 0 { versions()[pick(NVER, o.c.rotate_left(4))] } else { AutosarVersion::Autosar_00050 };
                let r = self.models[mi].create_file(&name, version);
                if let Ok(f) = &r {
                    self.files.push(FileH { model: mi, file: f.clone() });
                }
                finish!(r, format!("model{mi}.create_file({name:?}, {:?})", version))
            }
            REMOVE_FILE => {
                let Some(fi) = self.pick_file(o.a) else { skip!("no file".to_string()) };
                // remove_file is called on the file's own model (mostly) or on another model
                let mi = if o.b % 8 == 0 { pick(self.models.len(), o.b.rotate_left(4)) } else { self.files[fi].model };
                res.model = mi;
                self.models[mi].remove_file(&self.files[fi].file);
                res.ok = true;
                res.desc = format!("model{mi}.remove_file(file{fi})");
            }
            ADD_TO_FILE | REMOVE_FROM_FILE => {
                let Some(id) = self.pick_elem(o.a, o.d) else { skip!("no element".to_string()) };
                let Some(fi) = self.pick_file(o.b) else { skip!("no file".to_string()) };
                let e = self.elems[id].clone();
                res.model = self.model_of(id);
                if o.code == ADD_TO_FILE {
                    finish!(e.add_to_file(&self.files[fi].file), format!("{}.add_to_file(file{fi})", self.name_of(id)))
                } else {
                    finish!(e.remove_from_file(&self.files[fi].file), format!("{}.remove_from_file(file{fi})", self.name_of(id)))
                }
            }
            SET_FILENAME => {
                let Some(fi) = self.pick_file(o.a) else { skip!("no file".to_string()) };
                res.model = self.files[fi].model;
                let name = if o.b % 3 == 0 && !self.files.is_empty() { self.files[pick(self.files.len(), o.b.rotate_left(4))].file.filename().to_string_lossy().to_string() } else { format!("renamed{}.arxml", o.b % 5) };
                finish!(self.files[fi].file.set_filename(&name), format!("file{fi}.set_filename({name:?})"))
            }
            SET_VERSION => {
                let Some(fi) = self.pick_file(o.a) else { skip!("no file".to_string()) };
                res.model = self.files[fi].model;
                let v = versions()[pick(NVER, o.b)];
                finish!(self.files[fi].file.set_version(v), format!("file{fi}.set_version({:?})", v))
            }
            LOAD => {
                let mi = pick(self.models.len(), o.a);
                res.model = mi;
                res.is_load = true;
                let di = pick(DOCS.len(), o.b);
                self.file_counter += 1;
                let name = if o.c % 8 == 0 && !self.files.is_empty() { self.files[pick(self.files.len(), o.c.rotate_left(4))].file.filename().to_string_lossy().to_string() } else { format!("l{}.arxml", self.file_counter) };
                let strict = o.d % 2 == 0;
                let r = self.models[mi].load_buffer(DOCS[di].as_bytes(), &name, strict);
                if let Ok((f, _)) = &r {
                    self.files.push(FileH { model: mi, file: f.clone() });
                }
                finish!(r, format!("model{mi}.load_buffer(DOCS[{di}], {name:?}, strict={strict})"))
            }
            DUPLICATE => {
                if self.models.len() >= 3 {
                    skip!("duplicate: model limit".to_string());
                }
                let mi = pick(self.models.len(), o.a);
                res.model = mi;
                let r = self.models[mi].duplicate();
                if let Ok(m) = &r {
                    self.models.push(m.clone());
                    let nm = self.models.len() - 1;
                    for f in m.files() {
                        self.files.push(FileH { model: nm, file: f });
                    }
                }
                finish!(r, format!("model{mi}.duplicate()"))
            }
            _ => skip!(format!("unknown op {}", o.code)),
        }
        self.log.push(format!("{} {}", if res.ok { "ok   ".to_string() } else { format!("ERR({})", res.err.clone().unwrap_or_default()) }, res.desc));
        res
    }
}
