#!/bin/bash
# tools/round2.sh <ID e.g. C06b> <check ids...> : confirm a round-2 seeded change, store it, run the quick checks against it
ID=$1; shift
/verif/tools/confirm_seeded.sh $ID 2>&1 | tail -4
if [ -f /verif/seeded/$ID/patch.diff ]; then
  /verif/tools/try_patch.sh /verif/seeded/$ID/patch.diff quick "$@" 2>&1 | tail -$#
fi
