#!/usr/bin/env python3
"""Regenerates /verif/MANIFEST.json from the table below (kept in one place so the file is always valid)."""
import json, subprocess
props = [json.loads(l) for l in open('/verif/properties.jsonl')]
ids = [p['id'] for p in props]

CLAIMED = {
 'C18': dict(
   technique="exhaustive enumeration of the specification graph + generated non-members (one-edit neighbours, proptest random strings) against a listing-membership / round-trip oracle",
   text="All members of the four name tables, all their one-edit neighbours, every (type, version, sub-element) and (type, attribute) lookup and every reference-type x named-type pair are enumerated completely (finite space, exhaustive); arbitrary non-member strings are sampled with proptest. Oracle: membership in the listing obtained from the public iterators and from the variant lists of the generated sources.",
   note="Trusts the public listing iterators (sub_element_spec_iter, attribute_spec_iter, Enum item slices) as the statement of what the specification lists; a wrong version word changed consistently in listing and lookup is invisible.",
   ref="DESIGN.md section 3 C18"),
 'C19': dict(
   technique="differential testing of each validator against an own minimal DFA compiled from the published regex: bounded-exhaustive strings, W-method conformance suites, proptest-generated members and one-edit neighbours",
   text="Bounded-exhaustive over a per-regex reduced alphabet, W-method suite (transition cover with all 256 byte values x characterising set, k extra states in thorough), and generated members up to 400 bytes with all one-edit neighbours. The oracle DFA is cross-checked against the regex crate on every run.",
   note="Assumes the regex text in the specification tables is the published one; '.' is judged only where XSD / no-newline / any-byte readings agree; complete only up to the stated length and extra-state bounds.",
   ref="DESIGN.md section 3 C19"),
 'C01': dict(
   technique="proptest-generated specification-derived documents x rendering styles; constructed-truth oracle (extract(load(render(d))) == d) and round-trip oracle (load-serialize-load identity, byte-identical re-serialization), strict and lenient, all 21 versions; the round-trip oracle also on every accepted mutated document (proptest) and inside a coverage-guided libFuzzer target (thorough tier)",
   text="Documents are generated from the specification tables (every element type reachable in every version in the thorough sweep; every character-data kind, mixed content, attributes, comments), rendered in thousands of textual forms (quote styles, entity / decimal / hex references, padding, CRLF, BOM, PIs), and the loaded model is compared with the abstract document the text was rendered from, then serialized and re-loaded. Each document is also loaded into a model that already holds a small file of another schema version: the text written for the document's file must carry the document's own schema location and load to the document (the shared root's and AR-PACKAGES' attributes and comment, which exist once per model, left out).",
   note="Domain restrictions (documented in DESIGN.md section 7): values contain no \\r and are not whitespace-only, '>' is escaped inside tags, no whitespace before '>' of an end tag, pattern values use only mandatory escapes. A strict rejection of a generated document is reported as 'generator-rejected' (harness bug or disagreement), never silently dropped.",
   ref="DESIGN.md section 3 C01"),
 'C02': dict(
   technique="bounded-exhaustive token strings in nine syntactic contexts + proptest structure-aware mutation / truncation of rendered documents + random bytes + coverage-guided libFuzzer target with the same oracle (thorough tier); oracle: no panic (catch_unwind) / no abort (child process), error line range, check_buffer superset of load",
   text="Totality is attacked where the lexer and parser index into the buffer: every string up to length 4 (quick) / 6 (thorough) over a 16-symbol XML token alphabet in nine contexts, truncation of small documents at every byte offset, XML-header attribute shapes, mutated documents of all versions, random bytes / UTF-8, and nesting-depth probes run in a child process.",
   note="Termination: every load_buffer / check_buffer call is registered with a watchdog thread that reads the CPU time of the calling thread (/proc/self/task/<tid>/stat); 30 s of CPU time inside one call (normal: microseconds) is reported as no-termination with the input saved - CPU time, so machine load cannot trigger it. Stack overflow at extreme nesting depth is a recorded open finding (KF-C02-4), a crash at <= 1000 levels would be a new violation.",
   ref="DESIGN.md section 3 C02"),
 'C08': dict(
   technique="differential testing strict vs lenient load (R1-R3) over C02's generated inputs, plus proptest-generated valid documents with one injected defect from a 22-class catalogue that strict loading must reject (R4); R1-R3 also inside a coverage-guided libFuzzer target (thorough tier)",
   text="Strict Ok <=> lenient Ok without warnings (same model); lenient warnings => strict error equal to the first warning (Display and Debug); lenient error => strict error; each injected documented defect (claimed only when the specification tables decide it) must be rejected by strict loading.",
   note="Injection claims rely on SpecIndex (public listing) and my own grammar matcher; sibling order is not claimed as a defect (the validator documents that it ignores order).",
   ref="DESIGN.md section 3 C08"),
 'C20': dict(
   technique="proptest-generated texts in the AUTOSAR lexical forms paired with their exact value (u128 / big-integer arithmetic), checked for 12 integer widths and for correctly rounded float conversion by an exact midpoint test; value round trip through element slots (set, serialize, load)",
   text="Every integer width is compared with exact arithmetic at and around its bounds in every radix and on 40-digit random literals; float results are judged against the two neighbouring midpoints in big-integer arithmetic (no float parsing in the oracle); enumeration items of every enumeration per version, escapable strings, boundary u64 and all f64 bit classes are formatted and parsed back through real element slots.",
   note="Texts whose exact value exceeds the largest finite double are not judged. Slots: element content of all four kinds, and attribute slots for every (enumeration, version) of every attribute (text -> value through set_attribute_string).",
   ref="DESIGN.md section 3 C20"),
 'C03': dict(
   technique="stateful property-based testing: proptest-generated histories of public API calls (symbolic handles incl. stale ones) with a tree invariant recomputed from content() after every step",
   text="After every step of every generated history the element tree obtained by own recursion over content() is compared with parent(), position(), get_sub_element_at(), model(), sub_elements() and all DFS iterators (model / element / depth-limited); place-dependent requests through stale handles must fail, mutating calls through them must fail and leave a full snapshot of every model unchanged.",
   note="The tree is read through content() only; element identity is the crate's pointer equality. Operations that hit an open finding of another property (merge duplicates, failed merge, container-copy collisions) end or skip the step and are counted.",
   ref="DESIGN.md section 3 C03"),
 'C04': dict(
   technique="stateful property-based testing: naming-biased proptest histories; oracle = path map derived from the tree (concatenated item names) vs identifiable_elements(), get_element_by_path() incl. ghost-path probes, path()",
   text="Path index exactness is checked after every step in both directions (nothing missing, nothing stale, each once, the very element), on every expected path, every path that ever existed in the history, and one-edit variants (prefix siblings such as /pkg1 vs /pkg10).",
   note="Identifiable = type named in some version and first content item is a SHORT-NAME with one string value (own definition).",
   ref="DESIGN.md section 3 C04"),
 'C05': dict(
   technique="stateful property-based testing: reference-biased proptest histories; oracle = referrer multimap derived from the tree vs all keys of the reverse map (hook) and get_references_to(); exact invalid-reference report and resolve/report biconditional",
   text="After every step every key of the reverse reference map (obtained through the verif hook, so stale keys nobody asks for are seen) is compared as a multiset with the reference elements in the tree carrying that text; check_references() must equal the set computed from the tree and the DEST tables. A second generated sub-property loads documents whose reference texts are padded with white space / line breaks or written with a character reference, and runs the same comparison after the load and after a rename of a target (the parser's own registration path).",
   note="An entry counts as live when its weak pointer upgrades; an upgradable entry for an element that is not in the model is a violation.",
   ref="DESIGN.md section 3 C05"),
 'C10': dict(
   technique="stateful property-based testing: file-set proptest histories on 1-4 files; oracle = membership invariants and per-file projection of the tree vs file.elements_dfs() and the re-loaded file.serialize()",
   text="Local file sets must be subsets of the parent's effective set and of the model's files, every element must be in at least one file, and each file's iterator and written text must equal the projection of the tree onto that file (the text must load on its own).",
   note="The three header attributes of the root element are never edited by the generator (documented domain restriction).",
   ref="DESIGN.md section 3 C10"),
 'C11': dict(
   technique="stateful property-based testing with fault-directed arguments: every call that returns Err is framed by a full snapshot (tree, values, attributes, comments, local file sets, path index, lookups incl. ghost paths, reverse reference map, invalid-reference report, file list)",
   text="About 100 (operation, error variant) classes are reached per run, including loads failing in the lexer, late in the parser, in the merge, in the overlap check and on a duplicate file name; snapshot before must equal snapshot after. A second generated sub-property adds the fixture's AR-PACKAGES to a new file of an older version and frames repositions of elements inside their own parent and create_sub_element_at calls with the same snapshot comparison (late failures caused by a lowered version).",
   note="write() is excluded (documented partial effect); remove_attribute() returning false is not an error value.",
   ref="DESIGN.md section 3 C11"),
 'C12': dict(
   technique="stateful property-based testing under a lock-audit monitor (hook): proptest histories with aliased / stale / foreign operands plus read-only, Debug, Ord and iterator-while-editing calls; specification API and CharacterData fuzzed with arbitrary arguments; deep models in a child process",
   text="A blocking lock request that conflicts with a lock the same thread holds is reported (it would hang) instead of hanging, ParentElementLocked returned single-threaded is a violation, panics are caught, lock leaks are detected; stack use is probed on models up to 5000 package levels deep in a child process.",
   note="With the monitor installed the real parking_lot locks are still taken after the logical grant, so behaviour other than blocking is unchanged.",
   ref="DESIGN.md section 3 C12"),
 'C06': dict(
   technique="property-based testing of single rename / move / move-at operations on generated reference graphs; oracle computed from the pre-state by own path resolution (same target object afterwards; all other references keep their text)",
   text="Reference graphs contain references to the operated element, to nested elements, to name-prefix siblings, dangling references and dangling references equal to the future path; same-model and cross-model moves, moves into parents where the name exists (suffixing). One case in four starts from a leniently loaded 4.0.1 document whose CAN-TP-ADDRESS / CAN-TP-CHANNEL elements carry a SHORT-NAME although their types are named only in later versions.",
   note="Dangling references at or below the old path are a stated don't-care; operations that fail are C11's business.",
   ref="DESIGN.md section 3 C06"),
 'C07': dict(
   technique="specification sweep (element type x version) with brute-force position probes against an own grammar matcher, plus proptest edit histories with a round-trip (serialize, lenient load) and structure / value-space oracle",
   text="For every sampled (type, version) the reported insertion range, list_valid_sub_elements() and the outcome of create(_named)_sub_element(_at) at every position are compared with the exact set of order-preserving positions; histories check after every successful call that children satisfy the grammar, element types are the prescribed ones, attributes and values are in their value spaces and that the written file reloads without complaint other than RequiredAttributeMissing. Names that conform to the identifier pattern but exceed 128 characters are in the pool of names the histories use.",
   note="The grammar is reconstructed from find_sub_element index vectors and container modes (public API) and matched by own code; adjacent text items of mixed content are compared coalesced (XML cannot tell them apart). Histories start from 16 fixtures: loaded / empty single-file models of five versions, pairs of models of different versions (cross-version copies and moves), and one model with files of two versions (there every file's written text must load without complaint in that file's version).",
   ref="DESIGN.md section 3 C07"),
 'C13': dict(
   technique="property-based testing: generated worlds + one deep copy (same/other parent, other model, other version) or duplicate(); oracles: structural equality up to the computed name suffix, own version filter, object disjointness, index invariants, independence under edits, copy+remove = identity, per-file byte equality for duplicate",
   text="Copies are compared with the source (or with the harness's own version filter of the source), must share no element object with it, must be findable through the path and reference indices, and edits inside either side must not show in the other; duplicates must serialize every file byte-identically and evolve independently (full snapshots incl. per-file text).",
   note="Copies whose top-level type differs from the type the destination prescribes are excluded (open finding KF-C07-2) and counted.",
   ref="DESIGN.md section 3 C13"),
 'C14': dict(
   technique="metamorphic property-based testing: models built twice (second time with every reorderable sibling list permuted), then sorted; content-preservation, idempotence and permutation-invariance oracles",
   text="Names mix letters and digits (a2/a10/a1b/a02), INDEX and DEFINITION-REF keyed ECUC values, equal keys, mixed kinds in bags, ordered containers, lists of up to 60 siblings (std sort's merge path); which containers are ordered is read from the specification. PRM-CHAR elements (nested sequence groups MIN TYP MAX / ABS TOL before PRM-UNIT) are part of the generated models.",
   note="Siblings that differ only in comments are not generated (the statement lets them keep their relative order); siblings that differ only in an attribute value are (L-4/L, SD/GID), as are names whose numeric suffix exceeds u64.",
   ref="DESIGN.md section 3 C14"),
 'C17': dict(
   technique="differential property-based testing: check_version_compatibility / set_version vs strict loading of the harness's own rendering of the same content labelled with the target version, over specification-derived documents targeted at version-sensitive types x 21 targets",
   text="errs.is_empty(), the target bit of the returned mask and the success of set_version are each compared with the result of strictly loading the relabelled content; successful set_version must keep the content and produce a strictly valid file, a failed one must change nothing.",
   note="Three variants: single-file models, two files sharing parents (each file judged against its own projection), and files whose content does not fit their label (valid content of version A, labelled L, loaded leniently; half of these are asked about their own version - there the oracle text is the file's own serialization with the xsd name replaced). Four gaps of the check are recorded (KF-C17-1..4).",
   ref="DESIGN.md section 3 C17"),
 'C09': dict(
   technique="property-based testing with constructed truth: a generated master document is split over 2-4 files at splittable points (file sets per element), optionally with differently ordered named siblings, and loaded in all orders; oracle = master tree with multiset children and assigned file sets, per-file content, order independence",
   text="Every load order (all k! for k <= 3) must give a model that equals the master (every element once, the assigned file set on every element), every file written from the merged model must equal the file loaded on its own, and all orders must agree; a rejected merge of consistent views is a violation. In the conflict cases the files also carry packages of their own where the master has packages to spare, and a rejected load must leave the number of elements of the model unchanged.",
   note="Anonymous (non-identifiable) siblings of one kind are kept together and never re-ordered unless a DEFINITION-REF that is unique among them identifies them (BSW values: those are distributed individually); siblings are re-ordered per file only below splittable parents. Files of one case may have different versions (a split is made only where every involved version allows it). A conflict variant diverges two complete views below a non-splittable parent: same-kind named children must be rejected in both orders; different-kind divergences are a recorded finding (KF-C09-4).",
   ref="DESIGN.md section 3 C09"),
 'C15': dict(
   technique="schedule-controlled concurrency testing: the harness owns the schedule through the lock shim (hook); systematic exploration of all schedules up to a preemption bound for curated operation pairs plus proptest-generated operations and schedules; oracle: no state in which every unfinished thread waits on a non-timed lock request, and no non-timed wait for the lock of an ancestor element while holding a descendant's lock",
   text="Two or three controlled threads run operations of a 36-operation catalogue on a fixture whose roles place the operands as same / parent-child / ancestor-descendant / referrer-target / unrelated / other model. Every lock request is a scheduling point; timed waits succeed or time out as the schedule says. A deadlock is reported with the lock-request sites (file:function#ordinal) of the cycle; in addition every blocking request for an ancestor's lock made while a descendant's lock is held is reported (half of a lock-order inversion against the documented top-down order), whether or not the partner thread is in the case.",
   note="The crate blocks at 160 call sites by design (the documented try-lock discipline covers only the parent walk) and deadlocks in many combinations; those are one recorded finding, KF-C15-1, described by four lists: every blocking read()/write() call of the pinned sources (computed from the sources: a try-lock that becomes blocking, or a new lock call, is a new wait site), the holding sites seen in deadlock cycles (a lock newly held across a blocking request is new), the sites of read requests for a lock the thread already holds for reading, and the five sites that block on an ancestor's lock. A deadlock outside these lists is a violation. The logical lock table mirrors parking_lot's writer preference; wake-up order is over-approximated.",
   ref="DESIGN.md section 3 C15, section 7"),
 'C16': dict(
   technique="schedule-controlled linearizability testing: curated operation pairs x all schedules up to a preemption bound + proptest-generated deep schedules; oracle: results and id-free final state (per-file text, tree, membership, path index, reverse reference map, reference report of both models) equal those of SOME sequential order, invariants hold afterwards",
   text="For every explored schedule of two concurrent operations the final observable state and the per-operation results are compared with both sequential orders run on fresh fixtures (operations that returned ParentElementLocked are left out: they must have had no effect), and the tree / path / reference / membership invariants of C03-C05/C10 are evaluated on the result.",
   note="Multi-step writers are not atomic in the pinned code; recorded in KF-C16-1 as (operation-name pair, kind of failure) entries - kind = broken invariant class (paths / refs / membership / tree), a final state no order yields, or only the results - plus three writers (remove_file, set_item_name, remove_from_file) that are not atomic against anything. A pair or a kind that is not listed is a violation. The explored pairs are a fixed curated set, so the list is finite. Iterator operations observe a moving model by design and are not judged.",
   ref="DESIGN.md section 3 C16, section 7"),
}
NA_REASON = "check not built yet (construction in progress, see DESIGN.md section 6)"

def check(pid, c):
    return {
      "property_id": pid,
      "quick_cmd": f"./check {pid} quick",
      "thorough_cmd": f"./check {pid} thorough",
      "evidence_file": f"/verif/evidence/{pid}.json",
      "replay_cmd_template": f"./check {pid} --replay {{path}}",
      "engine": "verif-harness",
      "level_claimed": {"category": "exploration", "text": c['text'], "design_ref": c['ref']},
      "level_note": c['note'],
      "technique": c['technique'],
    }
hooks = subprocess.run(['git','-C','/repo','log','--format=%h %s','--grep=^verif hook'],capture_output=True,text=True).stdout.strip().splitlines()
m = {
 "version": 1,
 "setup_cmd": "cd /verif/harness && CARGO_NET_OFFLINE=true cargo build --release --offline",
 "hooks": {
   "guard": "cargo feature `verif` of crate autosar-data (off by default)",
   "enable": "the harness crate /verif/harness depends on /repo/autosar-data with features = [\"verif\"]; ./check rebuilds it from /repo's working tree on every run",
   "baseline_off_cmd": "cd /repo && cargo test --workspace --no-fail-fast --offline",
   "source_commits": [h.split()[0] for h in hooks],
   "add_only": True,
 },
 "engines": [{"name": "verif-harness", "path": "/verif/harness", "serves_properties": sorted(CLAIMED), "kind_free_text": "Rust binary: proptest TestRunner (fixed seeds, parallel workers, shrinking), exhaustive enumerators, own regex/DFA engine, specification index; ./check <id> <tier> rebuilds and runs it"}],
 "checks": [check(p, CLAIMED[p]) for p in ids if p in CLAIMED],
 "notes": "Exit codes: 0 held (known findings printed as KNOWN-FINDING lines), 1 violation (VIOLATION line with replay file), 2 harness error / inconclusive. Known findings: /verif/known_findings.json.",
 "not_applicable": [{"property_id": p, "reason": NA_REASON} for p in ids if p not in CLAIMED],
}
json.dump(m, open('/verif/MANIFEST.json','w'), indent=1)
print("claimed:", sorted(CLAIMED))
