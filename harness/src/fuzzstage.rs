//! Coverage-guided stage (libFuzzer, target `load` in harness/fuzz) for the byte-string properties C01 / C02 / C08.
//! The driver writes a seed corpus from the harness's own generators, runs N independent libFuzzer processes with
//! fixed -runs and -seed (fixed work, no time limit), and turns every artifact into a failure that is judged by the
//! same oracle in-process (so signatures, known findings and replay files work exactly as in the other stages).
use crate::engine::*;
use crate::inputs::*;
use serde_json::json;
use std::process::{Command, Stdio};

pub fn fuzz_binary() -> Option<String> {
    let p = format!("{}/harness/fuzz/target/x86_64-unknown-linux-gnu/release/load", verif_dir());
    if std::path::Path::new(&p).exists() {
        Some(p)
    } else {
        None
    }
}

/// `prop`: which oracle the target applies ("C01" | "C02" | "C08"); `oracle`: the same oracle in-process
pub fn run<F>(ctx: &Ctx, prop: &str, oracle: F)
where
    F: Fn(&[u8], &mut Stats) -> Result<(), Failure>,
{
    let Some(bin) = fuzz_binary() else {
        // quick tier, or the nightly toolchain is missing: the stage is simply absent (recorded, not an error)
        let mut st = Stats::new();
        st.class("fuzz-stage:not-built");
        ctx.merge(st);
        return;
    };
    let workers: usize = std::env::var("VERIF_FUZZ_WORKERS").ok().and_then(|s| s.parse().ok()).unwrap_or(16);
    let runs: u64 = std::env::var("VERIF_FUZZ_RUNS").ok().and_then(|s| s.parse().ok()).unwrap_or(ctx.tier.pick(20_000u64, 150_000u64));
    let work = format!("{}/harness/target/fuzz-work/{}", verif_dir(), prop);
    let _ = std::fs::remove_dir_all(&work);
    let seeds = format!("{work}/seeds");
    let _ = std::fs::create_dir_all(&seeds);
    // seed corpus: small rendered documents of all versions + header variants + the token contexts
    let mut n = 0;
    for d in small_docs(ctx, 300).into_iter().chain(header_variants().into_iter().take(60)) {
        let _ = std::fs::write(format!("{seeds}/s{n:04}"), &d);
        n += 1;
    }
    for (_, pre, suf) in contexts() {
        let _ = std::fs::write(format!("{seeds}/c{n:04}"), [pre.as_slice(), suf.as_slice()].concat());
        n += 1;
    }
    let mut children = vec![];
    for w in 0..workers {
        let corpus = format!("{work}/corpus{w}");
        let arts = format!("{work}/artifacts{w}/");
        let _ = std::fs::create_dir_all(&corpus);
        let _ = std::fs::create_dir_all(&arts);
        let seed = (mix(ctx.seed_for("fuzz"), w as u64) % 0xffff_fffe) + 1; // 0 would mean "random"
        let child = Command::new(&bin)
            .arg(&corpus)
            .arg(&seeds)
            .arg(format!("-runs={runs}"))
            .arg(format!("-seed={seed}"))
            .arg("-max_len=2048")
            .arg("-len_control=0")
            .arg("-timeout=60")
            .arg("-rss_limit_mb=4096")
            .arg("-print_final_stats=1")
            .arg(format!("-artifact_prefix={arts}"))
            .env("VERIF_FUZZ_PROP", prop)
            .env("VERIF_DIR", verif_dir())
            .stdout(Stdio::null())
            .stderr(Stdio::piped())
            .spawn();
        match child {
            Ok(c) => children.push((w, c, arts)),
            Err(e) => ctx.harness_error(format!("cannot start the fuzz target: {e}")),
        }
    }
    let mut st = Stats::new();
    let mut total_execs = 0u64;
    let mut max_cov = 0u64;
    let mut corpus_units = 0u64;
    for (w, c, arts) in children {
        let out = match c.wait_with_output() {
            Ok(o) => o,
            Err(e) => {
                ctx.harness_error(format!("fuzz worker {w}: {e}"));
                continue;
            }
        };
        let log = String::from_utf8_lossy(&out.stderr).to_string();
        for l in log.lines() {
            if let Some(v) = l.strip_prefix("stat::number_of_executed_units:") {
                total_execs += v.trim().parse::<u64>().unwrap_or(0);
            }
            if l.contains(" cov: ") {
                if let Some(c) = l.split(" cov: ").nth(1).and_then(|x| x.split_whitespace().next()).and_then(|x| x.parse::<u64>().ok()) {
                    max_cov = max_cov.max(c);
                }
                if let Some(c) = l.split(" corp: ").nth(1).and_then(|x| x.split('/').next()).and_then(|x| x.trim().parse::<u64>().ok()) {
                    corpus_units = corpus_units.max(c);
                }
            }
        }
        // every artifact (crash-*, timeout-*, oom-*) is judged in-process
        let mut found = false;
        if let Ok(rd) = std::fs::read_dir(&arts) {
            for e in rd.filter_map(|e| e.ok()) {
                let name = e.file_name().to_string_lossy().to_string();
                let Ok(bytes) = std::fs::read(e.path()) else { continue };
                found = true;
                if name.starts_with("timeout-") || name.starts_with("oom-") {
                    // resource exhaustion is inconclusive (exit 2), never a violation
                    ctx.harness_error(format!("fuzz worker {w}: libFuzzer reported {name} ({} bytes)", bytes.len()));
                    continue;
                }
                match oracle(&bytes, &mut st) {
                    Err(f) => {
                        ctx.report(f);
                    }
                    Ok(()) => {
                        // the target aborted but the oracle is silent in-process: a sanitizer report or a crash outside the oracle
                        let tail: String = log.lines().rev().take(40).collect::<Vec<_>>().into_iter().rev().collect::<Vec<_>>().join("\n");
                        let kind = if log.contains("AddressSanitizer") { "fuzz:address-sanitizer-report" } else { "fuzz:target-aborted" };
                        ctx.report(Failure::new(kind, format!("the fuzz target aborted on this input but the in-process oracle passes\n{tail}"), json!({"kind": "bytes", "input": bytes_json(&bytes)})));
                    }
                }
            }
        }
        if !out.status.success() && !found {
            let tail: String = log.lines().rev().take(15).collect::<Vec<_>>().into_iter().rev().collect::<Vec<_>>().join(" | ");
            ctx.harness_error(format!("fuzz worker {w} exited with {:?} without an artifact: {tail}", out.status.code()));
        }
    }
    st.class_n("fuzz-stage:executions", total_execs);
    st.class_n("fuzz-stage:coverage-edges(max over workers)", max_cov);
    st.class_n("fuzz-stage:corpus-units(max over workers)", corpus_units);
    st.evaluations += total_execs;
    ctx.merge(st);
    let _ = std::fs::remove_dir_all(&work);
}
