//! C02 — the loader is total: arbitrary bytes never panic, crash or hang it.
use crate::engine::*;
use crate::inputs::*;
use crate::loader::*;
use crate::spec::*;
use proptest::prelude::*;
use serde_json::{json, Value};

pub const RULE: &str = "Inputs: (a) all strings up to length L over a 16-symbol XML token alphabet placed in nine contexts (buffer start, after the XML header, after the root tag, as attribute text, attribute value, SHORT-NAME text, string text, XML-header attributes, root attributes); \
(b) rendered specification-derived documents of all versions with 1-3 structure-aware mutations, truncation at every byte offset of small documents, XML-header variants; (c) random bytes and random UTF-8; \
(e) nesting-depth probes in a child process. Oracle: strict load, lenient load and check_buffer return (no panic, no abort), every error/warning line is within 1..=lines(input), load ok => check_buffer. \
Non-trivial: the input got past the first token (anything but a header/lexer error on line 1); distinct by bytes.";

pub fn drive<F>(ctx: &Ctx, oracle: F)
where
    F: Fn(&[u8], &mut Stats) -> Result<(), Failure> + Sync,
{
    // (a) exhaustive short strings
    let maxlen = ctx.tier.pick(4usize, 6usize);
    exhaustive_short(ctx, maxlen, |name, bytes, st| {
        if let Err(f) = oracle(bytes, st) {
            ctx.report(f);
        }
        if st.want_sample() && st.evaluations % 7919 == 13 {
            st.sample(json!({"context": name, "input_tail": String::from_utf8_lossy(&bytes[bytes.len().saturating_sub(90)..])}));
        }
    });
    ctx.exhaustive_part(&format!("all strings of length <= {maxlen} over the 16-symbol token alphabet in each of the nine contexts"));

    // header variants
    let hv = header_variants();
    par_items(ctx, &hv, |b, st| {
        st.class("header-variant");
        if let Err(f) = oracle(b, st) {
            ctx.report(f);
        }
    });

    // long prologues and long root tags (a header probe must not depend on a window size)
    let lp = long_prologue_docs();
    par_items(ctx, &lp, |b, st| {
        st.class("long-prologue");
        if let Err(f) = oracle(b, st) {
            ctx.report(f);
        }
    });

    // (b1) truncation at every offset
    let docs = small_docs(ctx, ctx.tier.pick(600, 3000));
    par_items(ctx, &docs, |d, st| {
        for cut in 0..=d.len() {
            st.class("truncation");
            if let Err(f) = oracle(&d[..cut], st) {
                ctx.report(f);
            }
        }
    });

    // (b2) mutated documents
    let reach: Vec<Vec<usize>> = (0..NVER).map(crate::c01::reachable).collect();
    let cases = ctx.tier.pick(1_000_000u64, 8_000_000u64);
    run_prop(ctx, "mutated-docs", cases, mutated_doc_strategy(), |v, st| {
        let Some(bytes) = build_mutated(&reach, v) else {
            return Outcome::Discard;
        };
        st.class("mutated-doc");
        if st.want_sample() && bytes.len() < 500 {
            st.sample(json!({"mutated_document": String::from_utf8_lossy(&bytes)}));
        }
        match oracle(&bytes, st) {
            Ok(()) => Outcome::Pass,
            Err(f) => Outcome::Fail(f),
        }
    });

    // (c) random bytes, random UTF-8, random token soup after a valid prefix
    let cases = ctx.tier.pick(800_000u64, 6_000_000u64);
    let cx = contexts();
    let strat = prop_oneof![
        proptest::collection::vec(any::<u8>(), 0..200).prop_map(|v| (0usize, v)),
        ".{0,80}".prop_map(|s: String| (0usize, s.into_bytes())),
        (1usize..9, proptest::collection::vec(prop_oneof![3 => proptest::sample::select(TOKEN_ALPHABET.to_vec()), 1 => any::<u8>()], 0..40)),
        (1usize..9, proptest::collection::vec(proptest::sample::select(FRAGMENTS.to_vec()), 0..6).prop_map(|v| v.concat())),
    ];
    run_prop(ctx, "random", cases, strat, |(ci, mid), st| {
        let (_, pre, suf) = &cx[*ci];
        let bytes = [pre.as_slice(), mid.as_slice(), suf.as_slice()].concat();
        st.class("random");
        match oracle(&bytes, st) {
            Ok(()) => Outcome::Pass,
            Err(f) => Outcome::Fail(f),
        }
    });
}

pub fn nested_doc(depth: usize) -> Vec<u8> {
    let mut s = String::with_capacity(depth * 60 + 400);
    s.push_str(XML_HDR);
    s.push_str(&autosar_open(autosar_data::AutosarVersion::Autosar_00050));
    for i in 0..depth {
        s.push_str("<AR-PACKAGES><AR-PACKAGE><SHORT-NAME>p");
        s.push_str(&i.to_string());
        s.push_str("</SHORT-NAME>");
    }
    for _ in 0..depth {
        s.push_str("</AR-PACKAGE></AR-PACKAGES>");
    }
    s.push_str("</AUTOSAR>");
    s.into_bytes()
}

/// executed in the child process: load (and drop) a document nested `depth` package levels deep
pub fn child_depth(depth: usize, what: &str) -> i32 {
    let bytes = nested_doc(depth);
    match what {
        "check" => {
            let _ = autosar_data::check_buffer(&bytes);
        }
        "lenient" => {
            let m = autosar_data::AutosarModel::new();
            let _ = m.load_buffer(&bytes, "deep.arxml", false);
        }
        _ => {
            let m = autosar_data::AutosarModel::new();
            let _ = m.load_buffer(&bytes, "deep.arxml", true);
        }
    }
    0
}

fn depth_probes(ctx: &Ctx) {
    let exe = std::env::current_exe().expect("current exe");
    let depths: &[usize] = ctx.tier.pick(&[100, 1000, 10_000, 100_000][..], &[100, 300, 1000, 3000, 10_000, 100_000, 1_000_000][..]);
    let mut st = Stats::new();
    for d in depths {
        for what in ["strict", "lenient", "check"] {
            st.eval();
            st.nontrivial_constructed();
            let out = std::process::Command::new(&exe).args(["CHILD-DEPTH", &d.to_string(), what]).output();
            match out {
                Ok(o) => {
                    st.class(&format!("depth-probe:{}", if o.status.success() { "returned" } else { "crashed" }));
                    if !o.status.success() {
                        let sig = if *d <= 1000 { "abort-on-nesting-depth<=1000" } else { "stack-overflow-on-deep-nesting" };
                        let err = String::from_utf8_lossy(&o.stderr);
                        ctx.report(Failure::new(
                            sig,
                            format!("{what} load of a document nested {d} package levels deep ({} bytes) killed the process: {:?} {}", nested_doc(*d).len(), o.status, err.lines().next().unwrap_or("")),
                            json!({"kind": "depth", "depth": d, "what": what}),
                        ));
                    }
                }
                Err(e) => ctx.harness_error(format!("cannot spawn child: {e}")),
            }
        }
    }
    st.sample(json!({"depth_probe": {"depths": depths, "shape": "<AR-PACKAGES><AR-PACKAGE><SHORT-NAME>pN</SHORT-NAME> nested N times", "run_in": "child process, main thread"}}));
    ctx.merge(st);
}

pub fn run(ctx: &Ctx) {
    ctx.set_rule(RULE);
    ctx.assume("termination is observed as 'the call returned'; a 60 s per-process hang would show as the check not finishing (no unbounded loop without input consumption exists in the lexer/parser)");
    drive(ctx, oracle_c02);
    depth_probes(ctx);
    if ctx.tier == Tier::Thorough {
        crate::fuzzstage::run(ctx, "C02", oracle_c02);
    }
}

pub fn replay(ctx: &Ctx, case: &Value) {
    let mut st = Stats::new();
    if case["kind"] == "depth" {
        depth_probes(ctx);
    } else {
        let b = bytes_from_json(&case["input"]);
        if let Err(f) = oracle_c02(&b, &mut st) {
            ctx.report(f);
        }
    }
    ctx.merge(st);
}
