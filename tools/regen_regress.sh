#!/bin/bash
# tools/regen_regress.sh <prop> [tier] : regenerate regress/<prop>/<KF>.json from a run that saves known-finding cases
set -u
P=$1; TIER=${2:-quick}
cd /verif
rm -rf replays/$P
VERIF_SAVE_KNOWN=1 ./check $P $TIER 2>&1 | grep "saved known" | while read a b c sig arrow path; do
  n=$(python3 -c "
import json
d=json.load(open('known_findings.json'))
c=[x['id'] for x in d['findings'] if x['signature']=='$sig' and (x['property']=='$P' or '$P' in x.get('also_seen_by',[]))]
print(c[0] if c else '')")
  [ -z "$n" ] && continue
  mkdir -p regress/$P
  kind=$(python3 -c "import json;print(json.load(open('$path'))['case'].get('kind',''))")
  if [ "$kind" = "demonstration" ]; then continue; fi
  if [ "$kind" = "history" ]; then
    VERIF_DIR=/verif harness/target/release/verif $P --minimize $path 2>/dev/null > /tmp/min.txt
    python3 -c "
import json
t=open('/tmp/min.txt').read()
i=t.rindex('\n{\n') if '\n{\n' in t else 0
d=json.loads(t[i:]); json.dump(d,open('regress/$P/$n.json','w'),indent=1); print('$P','$n',len(d['case']['ops']),'ops')"
  else
    cp $path regress/$P/$n.json; echo "$P $n (copied)"
  fi
done
