//! Shared by C02 and C08: run strict load, lenient load and check_buffer on a byte string and
//! collect everything observable; the two properties' oracles read the same outcome.
#![allow(dead_code)]

use crate::adoc::*;
use crate::engine::*;
use autosar_data::*;
use serde_json::{json, Value};

#[derive(Clone, Debug)]
pub struct ErrInfo {
    pub display: String,
    pub debug: String,
    pub line: Option<usize>,
    pub variant: String,
}

pub fn err_info(e: &AutosarDataError) -> ErrInfo {
    let (line, variant) = match e {
        AutosarDataError::LexerError { line, source, .. } => (Some(*line), format!("Lexer::{:?}", source)),
        AutosarDataError::ParserError { line, source, .. } => {
            let d = format!("{:?}", source);
            let v: String = d.chars().take_while(|c| c.is_alphanumeric()).collect();
            (Some(*line), format!("Parser::{v}"))
        }
        other => {
            let d = format!("{:?}", other);
            (None, d.chars().take_while(|c| c.is_alphanumeric()).collect())
        }
    };
    ErrInfo { display: format!("{e}"), debug: format!("{e:?}"), line, variant }
}

pub struct Loaded {
    pub tree: ANode,
    pub version: AutosarVersion,
    pub standalone: Option<bool>,
    pub warnings: Vec<ErrInfo>,
}

pub struct LoadOutcome {
    pub strict: Result<Loaded, ErrInfo>,
    pub lenient: Result<Loaded, ErrInfo>,
    pub check: bool,
}

fn load_one(bytes: &[u8], strict: bool) -> Result<Loaded, ErrInfo> {
    let _watch = watch_case(bytes, if strict { "load_buffer(strict)" } else { "load_buffer(lenient)" });
    let m = AutosarModel::new();
    match m.load_buffer(bytes, "test.arxml", strict) {
        Ok((f, w)) => Ok(Loaded { tree: extract_model(&m), version: f.version(), standalone: f.xml_standalone(), warnings: w.iter().map(err_info).collect() }),
        Err(e) => Err(err_info(&e)),
    }
}

/// Err = (which call, panic description)
pub fn run_all(bytes: &[u8]) -> Result<LoadOutcome, (String, String)> {
    let strict = no_panic(|| load_one(bytes, true)).map_err(|p| ("load_buffer(strict)".to_string(), p))?;
    let lenient = no_panic(|| load_one(bytes, false)).map_err(|p| ("load_buffer(lenient)".to_string(), p))?;
    let _watch_cb = watch_case(bytes, "check_buffer");
    let check = no_panic(|| check_buffer(bytes)).map_err(|p| ("check_buffer".to_string(), p))?;
    Ok(LoadOutcome { strict, lenient, check })
}

pub fn count_lines(bytes: &[u8]) -> usize {
    1 + bytes.iter().filter(|b| **b == b'\n').count()
}

pub fn case_json(bytes: &[u8]) -> Value {
    json!({"kind": "bytes", "input": bytes_json(bytes)})
}

/// C02 oracle on one input
pub fn oracle_c02(bytes: &[u8], st: &mut Stats) -> Result<(), Failure> {
    st.eval();
    let out = match run_all(bytes) {
        Ok(o) => o,
        Err((call, p)) => {
            return Err(Failure::new(format!("panic:{}", panic_site(&p)), format!("{call} panicked: {p}\ninput: {:?}", String::from_utf8_lossy(&bytes[..bytes.len().min(400)])), case_json(bytes)));
        }
    };
    let nl = count_lines(bytes);
    let mut lines: Vec<(&str, usize)> = vec![];
    let mut past_first = false;
    for (mode, r) in [("strict", &out.strict), ("lenient", &out.lenient)] {
        match r {
            Ok(l) => {
                past_first = true;
                st.class(&format!("{mode}:ok"));
                for w in &l.warnings {
                    if let Some(line) = w.line {
                        lines.push((mode, line));
                    }
                }
            }
            Err(e) => {
                st.class(&format!("{mode}:{}", e.variant));
                if !(e.variant == "Parser::InvalidArxmlFileHeader" || e.variant.starts_with("Lexer::")) || e.line.unwrap_or(1) > 1 {
                    past_first = true;
                }
                if let Some(line) = e.line {
                    lines.push((mode, line));
                }
            }
        }
    }
    if past_first {
        st.nontrivial(fnv(bytes));
    }
    for (mode, line) in lines {
        if line < 1 || line > nl {
            return Err(Failure::new(
                "error-line-out-of-range",
                format!("{mode} load reports line {line}, but the input has {nl} line(s)\ninput: {:?}", String::from_utf8_lossy(&bytes[..bytes.len().min(400)])),
                case_json(bytes),
            ));
        }
    }
    if (out.strict.is_ok() || out.lenient.is_ok()) && !out.check {
        return Err(Failure::new(
            "check_buffer-rejects-loadable",
            format!("load_buffer accepts the input but check_buffer returns false\ninput: {:?}", String::from_utf8_lossy(&bytes[..bytes.len().min(400)])),
            case_json(bytes),
        ));
    }
    Ok(())
}

/// C08 oracle R1-R3 on one input (panics are C02's business: skipped here)
pub fn oracle_c08(bytes: &[u8], st: &mut Stats) -> Result<(), Failure> {
    st.eval();
    let Ok(out) = run_all(bytes) else {
        st.class("skipped:panic(C02)");
        return Ok(());
    };
    let show = || format!("input: {:?}", String::from_utf8_lossy(&bytes[..bytes.len().min(600)]));
    match (&out.strict, &out.lenient) {
        (Ok(s), Ok(l)) => {
            st.class("both-ok");
            if !l.warnings.is_empty() {
                return Err(Failure::new(
                    format!("R2:strict-accepts-what-lenient-warns:{}", l.warnings[0].variant),
                    format!("strict load succeeds although lenient load warns: {}\n{}", l.warnings[0].display, show()),
                    case_json(bytes),
                ));
            }
            if let Some(d) = s.tree.diff(&l.tree, "") {
                return Err(Failure::new("R1:models-differ", format!("strict and lenient load produce different models: {d}\n{}", show()), case_json(bytes)));
            }
            if s.version != l.version || s.standalone != l.standalone {
                return Err(Failure::new("R1:file-attrs-differ", format!("strict and lenient load disagree on version/standalone\n{}", show()), case_json(bytes)));
            }
        }
        (Err(e), Ok(l)) => {
            if l.warnings.is_empty() {
                return Err(Failure::new(
                    format!("R1:strict-rejects-clean-lenient:{}", e.variant),
                    format!("lenient load succeeds without warnings but strict load fails: {}\n{}", e.display, show()),
                    case_json(bytes),
                ));
            }
            st.class(&format!("lenient-warns:{}", l.warnings[0].variant));
            st.nontrivial(fnv(bytes));
            let w = &l.warnings[0];
            if e.display != w.display || e.debug != w.debug {
                return Err(Failure::new(
                    format!("R2:strict-error-differs-from-first-warning:{}:{}", e.variant, w.variant),
                    format!("strict error: {}\nfirst lenient warning: {}\n{}", e.display, w.display, show()),
                    case_json(bytes),
                ));
            }
        }
        (Ok(_), Err(e)) => {
            return Err(Failure::new(
                format!("R3:strict-accepts-what-lenient-rejects:{}", e.variant),
                format!("lenient load rejects the input ({}) but strict load accepts it\n{}", e.display, show()),
                case_json(bytes),
            ));
        }
        (Err(es), Err(el)) => {
            st.class(&format!("both-reject:{}", el.variant));
            if el.line.unwrap_or(1) > 2 {
                st.nontrivial(fnv(bytes));
            }
            // both reject: a hard error must be the same in both modes unless strict stopped earlier at a recoverable one
            let _ = es;
        }
    }
    Ok(())
}
